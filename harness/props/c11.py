"""C11 — running is repeatable and independent of run history."""
import random, subprocess, json, os, sys
import numpy as np
from common import *

ID = "C11"
THEOREM_FILES = ["Summer.Props.C11", "Summer.Props.C11Source", "Summer.Props.C14Source", "Summer.Props.C11EndToEnd"]
TASK = "task"
RULE = ("(a) random histories of 3-8 calls (run with new parameter values, run with rebuild, get_runner(base, dyn).run, repeated runs) on one "
        "model: after every run the outputs and derived outputs must be bit-identical to those of a freshly constructed identical model run "
        "once with the same parameter values; the structure dump (compartments, flows, requests) must be unchanged by running; (b) the same "
        "program executed in subprocesses with PYTHONHASHSEED in {0,1,2,random}: identical digests; distinct by program hash + history, "
        "non-trivial when the history has >= 2 runs with different parameter values")
TRUSTED = ["bit-exact comparison on this machine; XLA's determinism on CPU"]
ASSUMPTIONS = ["every run supplies (with defaults) all input parameters and keeps the cached runner's solver unless rebuild=True — the two excluded "
               "points are exhibited as examples in Summer.Props.C11 (derived-output-only parameter omitted: known finding; changed solver "
               "without rebuild: outside the quantifier)",
               "bit identity, hash-seed independence and absence of hidden Python mutation are decided by execution only (DESIGN C11: partial)"]

def payloads(tier, seed):
    n = 36 if tier == "quick" else 600
    out = [{"seed": seed, "index": i, "mode": "history"} for i in range(n)]
    out += [{"seed": seed, "index": i, "mode": "hashseed"} for i in range(4 if tier == "quick" else 40)]
    out += [{"seed": seed, "index": i, "mode": "session"} for i in range(20 if tier == "quick" else 300)]
    out += [{"seed": seed, "index": i, "mode": "isolation"} for i in range(4 if tier == "quick" else 40)]
    return out

def known_payloads():
    return [{"seed": 0, "index": 0, "mode": "known_F3"}]

def build(ops):
    from interp import Interp
    I = Interp()
    for op in ops:
        if not I.apply(op)["ok"]:
            return None
    return I

def bits_equal(a, b):
    a = np.asarray(a, dtype=np.float64); b = np.asarray(b, dtype=np.float64)
    return a.shape == b.shape and a.tobytes() == b.tobytes()

def res_equal(x, y):
    if not bits_equal(x["outputs"], y["outputs"]): return False
    dx = dict((k, v) for k, v in x["derived"]); dy = dict((k, v) for k, v in y["derived"])
    return sorted(dx) == sorted(dy) and all(bits_equal(dx[k], dy[k]) for k in dx)

def vary(r, params):
    return {k: q(Fr(v) * r.choice([Fr(1), Fr(1, 2), Fr(3, 2), Fr(1)])) for k, v in params.items()}

F3_PROGRAM = [
    {"op": "model", "t0": "0", "t1": "3", "dt": "1", "comps": ["S", "I"], "inf": ["I"]},
    {"op": "init_pop", "dist": [["S", {"c": "90"}], ["I", {"c": "10"}]]},
    {"op": "flow", "kind": "transition", "name": "rec", "param": {"p": "a"}, "src": "I", "dst": "S"},
    {"op": "request", "name": "tot", "kind": "comp", "comps": ["S", "I"], "save": True},
    {"op": "request", "name": "scaled", "kind": "func", "sources": ["tot"], "expr": {"*": [{"x": 0}, {"p": "d"}]}, "save": True},
]

def session_task(W, payload, r, prog, out):
    """correspondence of the session state-machine model (Summer.Model.Session): for a random call history — including runs that omit
    parameters, defaults, explicit runners with frozen parameters — the model predicts, per call, error / the effective parameter
    assignment of the main graph and of the derived outputs / the solver used; the real run must fail exactly when predicted and otherwise
    equal (bitwise) a FRESH model run with the predicted assignment and solver."""
    ops = prog["build"]; params = prog["params"]
    # make sure there is a derived-output-only parameter and a shared one
    names = ops[0]["comps"]
    ops = ops + [{"op": "request", "name": "sess_tot", "kind": "comp", "comps": [names[0]], "save": True},
                 {"op": "request", "name": "sess_fn", "kind": "func", "sources": ["sess_tot"], "expr": {"*": [{"x": 0}, {"p": "dd"}]}, "save": True}]
    params = dict(params, dd="2/1")
    S = fresh_session(W)
    if not S.build(ops):
        bump(out, "build_rejected"); return out
    # a definition that builds but cannot be run at all (e.g. an infection flow into a compartment without strain in a strain model) has no
    # session behaviour to speak of
    probe = build(ops)
    if probe is None or not probe.apply({"op": "run", "params": [[k, v] for k, v in params.items()], "solver": "euler", "rebuild": True})["ok"]:
        bump(out, "definition_cannot_run"); return out
    lp = S.L.send({"op": "input_params"})
    keys = sorted(lp["params"])
    hist = []; lops = []
    solver0 = r.choice(["euler", "rk4"])
    other_solver = "rk4" if solver0 == "euler" else "euler"
    n_runners = 0
    dyn_menu = []
    saved_names = ["sess_tot", "sess_fn"] + [op["name"] for op in prog["build"] if op["op"] == "request" and op.get("save", True)]
    saved_names = sorted(set(saved_names))
    for step in range(r.randint(2, 7)):
        kind = r.choice(["run", "run", "run_omit", "defaults", "rebuild", "get_runner", "get_runner", "runner_run"])
        vals = {k: q(Fr(v) * r.choice([Fr(1), Fr(1, 2), Fr(3, 2)])) for k, v in params.items()}
        if kind == "defaults":
            sub = {k: vals[k] for k in keys if r.random() < 0.6}
            hist.append(("defaults", sub)); lops.append({"k": "defaults", "d": [[k, v] for k, v in sub.items()]})
            continue
        if kind == "get_runner":
            # an explicit runner (other solver, some parameters frozen at other values) must not disturb later model.run calls
            # one run-time-supplied set per history is REUSED by later explicit runners (same set, other frozen values)
            if dyn_menu and r.random() < 0.6:
                dyn = list(dyn_menu[0])
            else:
                dyn = None if r.random() < 0.3 else [k for k in keys if r.random() < 0.5]
                if dyn is not None: dyn_menu.append(list(dyn))
            sv = r.choice([solver0, other_solver, other_solver])
            # every third explicit runner computes only SOME derived outputs
            wl = None
            if saved_names and r.random() < 0.5:
                wl = sorted(r.sample(saved_names, r.randint(1, len(saved_names))))
            hist.append(("get_runner", dict(vals), dyn, sv, wl))
            lop = {"k": "get_runner", "base": [[k, v] for k, v in vals.items()], "solver": sv}
            if dyn is not None: lop["dyn"] = list(dyn)
            lops.append(lop); n_runners += 1
            continue
        if kind == "runner_run":
            if n_runners == 0:
                continue
            hdl = r.randrange(n_runners)
            hist.append(("runner_run", hdl, dict(vals))); lops.append({"k": "runner_run", "h": hdl, "p": [[k, v] for k, v in vals.items()]})
            continue
        p = dict(vals)
        if kind == "run_omit" and keys:
            for k in r.sample(keys, r.randint(1, min(2, len(keys)))): p.pop(k, None)
        hist.append(("run", p, kind == "rebuild"))
        lops.append({"k": "run", "p": [[k, v] for k, v in p.items()], "solver": solver0, "rebuild": kind == "rebuild"})
    # tails that every history ends with (in this order when both apply):
    # (1) after an explicit runner restricted to SOME derived outputs: a rebuilt model.run and an unrestricted explicit runner publish ALL outputs again
    if any(h_[0] == "get_runner" and h_[4] for h_ in hist):
        vals = {k: q(Fr(v) * r.choice([Fr(1), Fr(1, 2), Fr(3, 2)])) for k, v in params.items()}
        hist.append(("run", dict(vals), True)); lops.append({"k": "run", "p": [[k, v] for k, v in vals.items()], "solver": solver0, "rebuild": True})
        hist.append(("get_runner", dict(vals), None, solver0, None)); lops.append({"k": "get_runner", "base": [[k, v] for k, v in vals.items()], "solver": solver0})
        n_runners += 1
        hist.append(("runner_run", n_runners - 1, dict(vals))); lops.append({"k": "runner_run", "h": n_runners - 1, "p": [[k, v] for k, v in vals.items()]})
        bump(out, "session_tail:unrestricted_after_restricted_runner")
    # (2) defaults for ALL parameters, a run that leaves some to default, NEW default values for the same names, the same run again
    if keys and payload["index"] % 2 == 0:
        omit = r.sample(keys, r.randint(1, min(2, len(keys))))
        for mult in (Fr(1, 2), Fr(3, 2)):
            dvals = {k: q(Fr(params[k]) * mult) for k in keys if k in params}
            hist.append(("defaults", dvals)); lops.append({"k": "defaults", "d": [[k, v] for k, v in dvals.items()]})
            p = {k: q(Fr(v)) for k, v in params.items() if k not in omit}
            hist.append(("run", p, False)); lops.append({"k": "run", "p": [[k, v] for k, v in p.items()], "solver": solver0, "rebuild": False})
        bump(out, "session_tail:defaults_changed_between_runs")
    pred = S.L.send({"op": "session", "ops": lops}, raw=True)
    if not pred.get("ok"):
        out["diffs"].append({"stage": "S9", "what": "session model error", "model": pred, "prescribed": False}); return out
    I = S.I
    h = prog_hash(ops)
    runners = []; runner_wl = []
    cur_defaults = None
    n_done = 0
    for (hop, lop, outc) in zip(hist, lops, pred["outcomes"]):
        cur_wl = None
        n_done += 1
        if hop[0] == "defaults":
            I.model.set_default_parameters({k: float(Fr(v)) for k, v in hop[1].items()})
            cur_defaults = dict(hop[1])
            continue
        if hop[0] == "get_runner":
            try:
                kwx = {} if hop[4] is None else {"derived_outputs": list(hop[4])}
                runners.append(I.model.get_runner({k: float(Fr(v)) for k, v in hop[1].items()}, dyn_params=(None if hop[2] is None else list(hop[2])),
                                                  solver=hop[3], jit=False, **kwx))
                runner_wl.append(hop[4])
                built = True
            except BaseException:
                runners.append(None); runner_wl.append(None); built = False
            out["evals"] += 1
            if built != ("built" in outc):
                out["diffs"].append({"stage": "S9", "what": "session: get_runner raise / no-raise", "impl": built, "model": outc, "history": lops, "prescribed": False,
                                     "task": {"module": "c11", "fn": "task", "payload": payload}, "program": ops})
                break
            continue
        if hop[0] == "runner_run":
            rn = runners[hop[1]] if hop[1] < len(runners) else None
            if rn is None:
                break
            cur_wl = runner_wl[hop[1]]
            try:
                rn.run({k: float(Fr(v)) for k, v in hop[2].items()})
                rr = {"ok": True, "outputs": np.asarray(I.model.outputs).tolist(), "derived": [[k, np.asarray(v).tolist()] for k, v in I.model.derived_outputs.items()]}
            except BaseException as e:
                rr = {"ok": False, "err": type(e).__name__}
        else:
            rr = I.apply({"op": "run", "params": [[k, v] for k, v in hop[1].items()], "solver": solver0, "rebuild": hop[2]})
            # oracle on the real code alone: the SAME call on a fresh model with the same definition and the same current defaults must give the
            # same results (when the fresh model cannot run at all - a parameter is missing - the comparison is the known finding's and is left
            # to the session model)
            if rr["ok"]:
                Fo = build(ops)
                if Fo is not None:
                    if cur_defaults is not None:
                        Fo.model.set_default_parameters({k: float(Fr(v)) for k, v in cur_defaults.items()})
                    fo = Fo.apply({"op": "run", "params": [[k, v] for k, v in hop[1].items()], "solver": solver0, "rebuild": False})
                    out["evals"] += 1
                    if fo["ok"] and not res_equal(rr, fo):
                        fail(out, "a model.run at the end of a call history gives other results than the same call on a fresh model with the same definition and defaults",
                             "c11", payload, history=lops[:n_done], program=ops,
                             published=sorted(k for k, _ in rr["derived"]), fresh=sorted(k for k, _ in fo["derived"]))
                        break
        out["evals"] += 1
        if ("ok" in outc) != rr["ok"]:
            out["diffs"].append({"stage": "S9", "what": "session: raise / no-raise", "impl": rr.get("err", "ok"), "model": outc, "history": lops, "prescribed": False,
                                 "task": {"module": "c11", "fn": "task", "payload": payload}, "program": ops})
            break
        if not rr["ok"]:
            continue
        eff = outc["ok"]
        merged = dict(eff["main"]); conflict = False
        for k, v in eff["do"]:
            if k in merged and merged[k] != v: conflict = True
            merged[k] = v
        if conflict:
            bump(out, "split_assignment_skipped"); continue
        F = build(ops)
        fr = F.apply({"op": "run", "params": [[k, v] for k, v in merged.items()], "solver": eff["solver"], "rebuild": False})
        if not fr["ok"]:
            out["diffs"].append({"stage": "S9", "what": "session: fresh run with the predicted assignment fails", "model": outc, "history": lops, "prescribed": False}); break
        if cur_wl is not None:
            # a runner that computes only some derived outputs publishes exactly those (nothing left over from earlier runs), with the fresh values
            dr = dict((k, v) for k, v in rr["derived"]); dfr = dict((k, v) for k, v in fr["derived"])
            if sorted(dr) != sorted(cur_wl) or not bits_equal(rr["outputs"], fr["outputs"]) or not all(bits_equal(dr[k], dfr[k]) for k in cur_wl if k in dfr):
                out["diffs"].append({"stage": "S9", "what": "session: a runner restricted to some derived outputs publishes other names or values than a fresh run", "published": sorted(dr),
                                     "requested": list(cur_wl), "history": lops, "prescribed": False, "task": {"module": "c11", "fn": "task", "payload": payload}, "program": ops})
                break
            out["cases"].append(h + ":session:" + str(len(out["cases"])))
            continue
        if not res_equal(rr, fr):
            out["diffs"].append({"stage": "S9", "what": "session: run differs from a fresh run with the predicted effective assignment", "model": outc, "history": lops,
                                 "prescribed": False, "task": {"module": "c11", "fn": "task", "payload": payload}, "program": ops})
            break
        out["cases"].append(h + ":session:" + str(len(out["cases"])))
    if payload["index"] == 0:
        out["sample"] = {"session_history": lops, "predicted": pred["outcomes"]}
    return out


def task(W, payload):
    mode = payload["mode"]
    r = random.Random(f"C11:{mode}:{payload['seed']}:{payload['index']}")
    out = mk_out()
    if mode == "known_F3":
        I = build(F3_PROGRAM)
        r1 = I.apply({"op": "run", "params": [["a", "1/4"], ["d", "2"]], "solver": "euler", "rebuild": False})
        r2 = I.apply({"op": "run", "params": [["a", "1/4"]], "solver": "euler", "rebuild": False})
        fresh = build(F3_PROGRAM).apply({"op": "run", "params": [["a", "1/4"]], "solver": "euler", "rebuild": False})
        out["evals"] += 3
        if r2["ok"] != fresh["ok"]:
            fail(out, "a run that omits a derived-output-only parameter silently reuses the first run's value (a fresh model raises)", "c11", payload,
                 history=["run(a,d)", "run(a)"], later_run_ok=r2["ok"], fresh_ok=fresh["ok"],
                 signature={"oracle": "history", "site": "model_impl.py:do_base_params via model.run cache",
                            "pattern": ["run(all)", "run(omit derived-output-only parameter)"]})
        return out
    prog = Gen(r, Opts(max_strats=2, max_flows=5, n_requests=4)).program()
    out = mk_out(prog)
    ops = prog["build"]; params = prog["params"]
    h = prog_hash(ops)
    if mode == "hashseed":
        # aggregates over many sources with non-integer values: a summation order that depended on the hash seed would show in the last bits
        names0 = ops[0]["comps"]
        extra = [{"op": "request", "name": f"hs_c{i}", "kind": "comp", "comps": [n_], "save": False} for i, n_ in enumerate(names0)]
        fl_names = sorted(set(op["name"] for op in ops if op["op"] == "flow"))[:4]
        extra += [{"op": "request", "name": f"hs_f{i}", "kind": "flow", "flow": n_, "raw": bool(i % 2), "save": False} for i, n_ in enumerate(fl_names)]
        srcs = [e["name"] for e in extra]
        if len(srcs) >= 3 and not any(op["op"] == "whitelist" for op in ops):
            a = list(srcs); r.shuffle(a); b = list(srcs); r.shuffle(b)
            extra += [{"op": "request", "name": "hs_agg_a", "kind": "agg", "sources": a, "save": True},
                      {"op": "request", "name": "hs_agg_b", "kind": "agg", "sources": b[: max(3, len(b) - 1)], "save": True}]
            ops = ops + extra
        runs = [{"op": "run", "params": [[k, v] for k, v in params.items()], "solver": s, "rebuild": True} for s in ("euler", "odeint")]
        job = json.dumps({"ops": ops, "runs": runs})
        digs = {}
        for hs in ("0", "1", "2", "random"):
            env = dict(os.environ, PYTHONHASHSEED=hs, VERIF_NO_REEXEC="1")
            p = subprocess.run(["/venv/bin/python", os.path.join(os.path.dirname(os.path.abspath(__file__)), "..", "run_prog.py")], input=job,
                               capture_output=True, text=True, env=env, timeout=600)
            out["evals"] += 1
            try:
                res = json.loads(p.stdout.strip().splitlines()[-1])
            except Exception:
                bump(out, "subprocess_infra"); continue
            if not res["ok"]:
                bump(out, "program_rejected"); return out
            digs[hs] = (res["digests"], res["comps"])
        if len(set(json.dumps(v) for v in digs.values())) > 1:
            fail(out, "outputs differ between interpreter hash seeds", "c11", payload, digests={k: v[0] for k, v in digs.items()}, program=ops, params=params)
        if len(digs) >= 2: out["cases"].append(h + ":hashseed")
        if payload["index"] == 0:
            out["sample"] = {"hashseeds": list(digs), "digests": {k: v[0] for k, v in digs.items()}}
        return out
    if mode == "isolation":
        # process-level history: the target program run in a fresh interpreter vs. run after OTHER models (and itself) were built and run
        # in the same interpreter with other solvers, explicit solver tolerances, jit, other parameter values
        other = Gen(r, Opts(max_strats=2, max_flows=5, n_requests=3)).program()
        tol = r.choice(["1/1000000000", "1/100000", "1/100"])
        before = [{"ops": other["build"], "runs": [{"op": "run", "params": [[k, v] for k, v in other["params"].items()], "solver": "odeint", "rebuild": True, "rtol": tol, "atol": tol},
                                                   {"op": "run", "params": [[k, v] for k, v in vary(r, other["params"]).items()], "solver": r.choice(["euler", "rk4"]), "rebuild": True}]},
                  {"ops": ops, "runs": [{"op": "run", "params": [[k, v] for k, v in vary(r, params).items()], "solver": "odeint", "rebuild": True, "rtol": tol, "atol": tol, "jit": r.random() < 0.5}]}]
        runs = [{"op": "run", "params": [[k, v] for k, v in params.items()], "solver": s, "rebuild": True} for s in ("odeint", "euler")]
        digs = {}
        for label, job in (("alone", {"ops": ops, "runs": runs}), ("after_others", {"ops": ops, "runs": runs, "before": before})):
            env = dict(os.environ, PYTHONHASHSEED="0", VERIF_NO_REEXEC="1")
            p = subprocess.run(["/venv/bin/python", os.path.join(os.path.dirname(os.path.abspath(__file__)), "..", "run_prog.py")], input=json.dumps(job),
                               capture_output=True, text=True, env=env, timeout=900)
            out["evals"] += 1
            try:
                res = json.loads(p.stdout.strip().splitlines()[-1])
            except Exception:
                bump(out, "subprocess_infra"); continue
            if not res["ok"]:
                bump(out, "program_rejected"); return out
            digs[label] = res["digests"]
        if len(digs) == 2:
            out["cases"].append(h + ":isolation:" + tol)
            if digs["alone"] != digs["after_others"]:
                fail(out, "a run differs (bitwise) from the same run in a fresh interpreter after other models were run in the same interpreter with explicit solver tolerances / other solvers",
                     "c11", payload, digests=digs, program=ops, params=params, before=[b["runs"] for b in before])
        if payload["index"] == 0:
            out["sample"] = {"isolation": {"tolerance_used_by_earlier_runs": tol, "digests": digs}}
        return out
    if mode == "session":
        return session_task(W, payload, r, prog, out)
    # ---- history
    I = build(ops)
    if I is None:
        bump(out, "build_rejected"); return out
    dump0 = I.apply({"op": "dump"})["dump"]
    solver = r.choice(["euler", "rk4", "odeint"])
    hist = []
    nvals = 0
    last = None
    for step in range(r.randint(3, 8)):
        kind = r.choice(["run", "run", "run_same", "rebuild", "runner"])
        p = params if step == 0 else (last if kind == "run_same" and last else vary(r, params))
        if p != last: nvals += 1
        last = p
        pl = [[k, v] for k, v in p.items()]
        if kind == "runner":
            pf = {k: float(Fr(v)) for k, v in p.items()}
            base = {k: float(Fr(v)) for k, v in vary(r, params).items()}
            keys = sorted(pf)
            try:
                runner = I.model.get_runner(base, dyn_params=keys, jit=False, solver=solver)
                res = runner._run_func(parameters=pf)
                got = {"outputs": np.asarray(res["outputs"]).tolist(), "derived": [[k, np.asarray(v).tolist()] for k, v in res["derived_outputs"].items()]}
            except BaseException as e:
                bump(out, "runner_failed"); continue
        else:
            rr = I.apply({"op": "run", "params": pl, "solver": solver, "rebuild": kind == "rebuild"})
            if not rr["ok"]:
                bump(out, "run_failed"); break
            got = rr
        out["evals"] += 1
        hist.append(kind)
        F = build(ops)
        fr = F.apply({"op": "run", "params": pl, "solver": solver, "rebuild": False})
        if not fr["ok"]:
            bump(out, "fresh_failed"); break
        if not res_equal(got, fr):
            fail(out, "a run after other runs differs (bitwise) from the same run on a freshly built identical model", "c11", payload, history=hist,
                 step=step, solver=solver, program=ops, params=p)
            break
    dump1 = I.apply({"op": "dump"})["dump"]
    if dump0 != dump1:
        fail(out, "running or building a runner altered the model's definition (compartments, flows, requests)", "c11", payload, program=ops)
    if nvals >= 2:
        out["cases"].append(h + ":" + ",".join(hist))
    if payload["index"] == 0:
        out["sample"] = {"history": hist, "solver": solver, "program": ops[:5]}
    return out
