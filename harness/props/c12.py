"""C12 — outputs align with the model's times and compartments in a deterministic order."""
import random, datetime
import numpy as np
from common import *

ID = "C12"
THEOREM_FILES = ["Summer.Props.C12", "Summer.Props.C12Grid", "Summer.Props.C12EndToEnd", "Summer.Props.C12Dates", "Summer.Props.C13Source", "Summer.Props.C08Source", "Summer.Props.C06Source", "Summer.Props.C17Reach", "Summer.Props.C12Source"]
TASK = "task"
RULE = ("programs with 0-3 full/partial stratifications and flows added before and after them: model.times vs t0 + i*h, compartment order vs "
        "the model's in-place replacement rule, outputs shape, DataFrame index/columns, every flow end is the compartment at the position it "
        "claims; a flow-free copy of the structure with pairwise distinct populations identifies column j by value for all three solvers; "
        "pairs of models that share one Stratification object but differ in layout (row 0 must follow each model's own layout); "
        "datetime start/end with a reference date convert to the same numbers and the frames carry ref_date + t days; distinct by program hash, "
        "non-trivial when >= 1 stratification")
TRUSTED = ["pandas DataFrame construction and datetime arithmetic (executed only)"]
ASSUMPTIONS = ["compartment and stratum names contain no 'X' and stratification names no '_' (string serialisation is then injective)",
               "the float test num_steps % 1 == 0 also rejects some valid non-dyadic steps (over-rejection is outside the property)"]

def payloads(tier, seed):
    n = 60 if tier == "quick" else 1200
    return ([{"seed": seed, "index": i} for i in range(n)] + [{"seed": seed, "index": i, "mode": "shared"} for i in range(16 if tier == "quick" else 300)]
            + [{"seed": seed, "index": i, "mode": "decimal"} for i in range(2 if tier == "quick" else 20)])

def decimal_task(W, payload):
    """time grids with decimal (non-dyadic) start, end and step: the constructor may refuse a step whose quotient is not exactly an integer
    in floating point (over-rejection is outside the property), but a grid it ACCEPTS must be start, start+h, ..., end"""
    from fractions import Fraction
    from summer2 import CompartmentalModel
    r = random.Random(f"C12d:{payload['seed']}:{payload['index']}")
    out = mk_out()
    bump(out, "mode:decimal_grids")
    steps = ["0.1", "0.2", "0.3", "0.7", "0.05", "0.15", "0.6", "1.1", "0.9"]
    for _ in range(40):
        h = r.choice(steps); k = r.randint(2, 12); t0 = r.choice(["0", "0.5", "1.1", "-0.3", "10", "0.7"])
        fh, ft0 = Fraction(h), Fraction(t0)
        t1 = ft0 + k * fh
        args = ((float(ft0), float(t1)), ["A", "B"], ["A"])
        try:
            m = CompartmentalModel(*args, timestep=float(fh))
        except BaseException:
            bump(out, "decimal:refused"); continue
        out["evals"] += 1
        bump(out, "decimal:accepted")
        want = [float(ft0 + i * fh) for i in range(k + 1)]
        got = [float(v) for v in m.times]
        out["cases"].append(f"decimal:{t0}:{h}:{k}")
        if len(got) != len(want) or any(abs(a - b) > 1e-9 * max(1.0, abs(b)) for a, b in zip(got, want)):
            fail(out, "an accepted time grid is not start, start+h, ..., end", "c12", payload, start=t0, end=str(t1), timestep=h, got=got[:6], n_got=len(got), n_want=len(want))
    return out

def shared_task(W, payload):
    """one Stratification object applied to two models with different compartment layouts: in each model, column j of the values handed to
    the solver (row 0 of the outputs) must be the population of compartment j of THAT model (harness/props/c06.py::shared_task)"""
    import c06
    out = c06.shared_task(W, dict(payload))
    for d in out.get("diffs", []):
        d["task"] = {"module": "c12", "fn": "task", "payload": payload}
        d["what"] = "column / compartment alignment: " + d.get("what", "")
    return out

def task(W, payload):
    if payload.get("mode") == "shared":
        return shared_task(W, payload)
    if payload.get("mode") == "decimal":
        return decimal_task(W, payload)
    r = random.Random(f"C12:{payload['seed']}:{payload['index']}")
    prog = Gen(r, Opts(max_strats=3, max_flows=6, allow_requests=True, n_requests=2, allow_computed=False, shuffle_strat_comps_bias=0.5, shuffle_split_bias=0.5, split_bias=0.8)).program()
    S = fresh_session(W)
    out = mk_out(prog)
    if not S.build(prog["build"]):
        bump(out, "build_rejected"); return out
    m = S.I.model
    h = prog_hash(prog["build"])
    before = len(S.log)
    S.dump()
    # compartments (order) and flow structure: prescribed order of compartments
    for d in S.log[before:]:
        d = dict(d); d["prescribed"] = d["what"] == "dump:comps"; d["task"] = {"module": "c12", "fn": "task", "payload": payload}; d["program"] = prog["build"]
        out["diffs"].append(d)
    out["evals"] += 1
    # times
    t0 = Fr(prog["meta"]["t0"]); dt = Fr(prog["meta"]["dt"]); n = prog["meta"]["nsteps"]
    want_times = [float(t0 + i * dt) for i in range(n + 1)]
    if list(map(float, m.times)) != want_times:
        fail(out, "model.times is not start..end inclusive in steps of the timestep", "c12", payload, got=list(map(float, m.times)), want=want_times, program=prog["build"][:1])
    lt = S.L.send({"op": "times"})
    if lt["ok"] and [float(v) for v in lt["times"]] != list(map(float, m.times)):
        out["diffs"].append({"stage": "S1", "what": "times", "prescribed": True, "impl": list(map(float, m.times)), "model": [float(v) for v in lt["times"]],
                             "task": {"module": "c12", "fn": "task", "payload": payload}})
    # distinct names, endpoints
    names = [str(c) for c in m.compartments]
    if len(set(names)) != len(names):
        fail(out, "compartment names are not pairwise distinct", "c12", payload, names=names, program=prog["build"])
    m._update_compartment_indices()
    for i, f in enumerate(m.flows):
        for end in (f.source, f.dest):
            if end is not None:
                if not (0 <= end.idx < len(m.compartments)) or str(m.compartments[end.idx]) != str(end) or m.compartments[end.idx].strata != end.strata:
                    fail(out, "a flow endpoint is not the compartment of the model at the position it claims", "c12", payload, flow=i, end=str(end), idx=end.idx, program=prog["build"])
    if prog["meta"]["strats"]:
        out["cases"].append(h)
    # column j of the values handed to the solver is the population of the compartment listed at position j (declared distribution pushed
    # through the stratifications; prescribed by C06.init_eq_spec)
    before = len(S.log)
    S.init_pop(prog["params"])
    out["evals"] += 1
    tag_diffs(out, S, before, "c12", payload, prog, ("S6",))
    # run + frames
    rr = S.I.apply({"op": "run", "params": [[k, v] for k, v in prog["params"].items()], "solver": "euler"})
    out["evals"] += 1
    if rr["ok"]:
        o = np.array(rr["outputs"])
        if o.shape != (len(m.times), len(m.compartments)):
            fail(out, "outputs shape is not (times, compartments)", "c12", payload, shape=list(o.shape))
        df = m.get_outputs_df()
        if list(df.columns) != names or list(map(float, df.index)) != list(map(float, m.times)):
            fail(out, "outputs DataFrame labels differ from model.compartments / model.times", "c12", payload, columns=list(df.columns)[:5])
        ddf = m.get_derived_outputs_df()
        if list(map(float, ddf.index)) != list(map(float, m.times)):
            fail(out, "derived outputs DataFrame index differs from model.times", "c12", payload)
    # flow-free copy with pairwise distinct populations: column j is the compartment listed at position j, for every solver
    struct_ops = [op for op in prog["build"] if op["op"] in ("model", "stratify")]
    struct_ops = [dict(op) for op in struct_ops]
    for op in struct_ops:
        for k in ("flow_adj", "inf_adj", "mixing", "split"):
            op.pop(k, None)
        if op.get("kind") == "age":
            # an age stratification adds ageing flows; the flow-free copy uses a plain one with the same (sorted) strata
            op["kind"] = "plain"; op["strata"] = sorted(op["strata"], key=int)
    from interp import Interp
    I2 = Interp()
    okb = all(I2.apply(op)["ok"] for op in struct_ops)
    if okb:
        m2 = I2.model
        vals = [float(3 + 7 * i) for i in range(len(m2.compartments))]
        import jax.numpy as jnp
        m2.init_population_with_graphobject(jnp.array(vals))
        for solver in ("euler", "rk4", "odeint"):
            r2 = I2.apply({"op": "run", "params": [], "solver": solver})
            out["evals"] += 1
            if r2["ok"]:
                o2 = np.array(r2["outputs"])
                if not all(vec_close(list(row), vals, 1e-9) for row in o2):
                    fail(out, f"column j does not hold the compartment listed at position j ({solver}, flow-free model)", "c12", payload, row=list(map(float, o2[-1])), want=vals)
        if [str(c) for c in m2.compartments] != names:
            fail(out, "compartment order depends on something other than the build sequence of the structure", "c12", payload, a=names, b=[str(c) for c in m2.compartments])
    # dates: datetime start/end with a reference date
    ref = datetime.datetime(2020, 1, 1) + datetime.timedelta(days=r.randint(0, 400))
    from summer2 import CompartmentalModel
    from summer2.utils import Epoch
    ep = Epoch(ref)
    ts = float(t0); te = float(t0 + n * dt)
    try:
        md = CompartmentalModel((ep.number_to_datetime(ts), ep.number_to_datetime(te)), ["A", "B"], ["A"], timestep=float(dt), ref_date=ref)
        out["evals"] += 1
        if list(map(float, md.times)) != want_times:
            fail(out, "datetime start/end do not convert back to the same numeric times", "c12", payload, got=list(map(float, md.times)), want=want_times, ref=str(ref))
        idx = md._get_ref_idx()
        want_idx = [ref + datetime.timedelta(days=t) for t in want_times]
        if [x.to_pydatetime() for x in idx] != want_idx:
            fail(out, "frame dates are not reference date plus numeric time in days", "c12", payload, got=[str(x) for x in idx][:3], want=[str(x) for x in want_idx][:3])
        # the same grid given as NUMBERS (start time not necessarily 0) with the same reference date: the same labels
        mn = CompartmentalModel((ts, te), ["A", "B"], ["A"], timestep=float(dt), ref_date=ref)
        out["evals"] += 1
        idxn = mn._get_ref_idx()
        if [x.to_pydatetime() for x in idxn] != want_idx:
            fail(out, "frame dates of a model given numeric times and a reference date are not reference date plus numeric time in days", "c12", payload,
                 got=[str(x) for x in idxn][:3], want=[str(x) for x in want_idx][:3], t0=ts)
        for t in want_times:
            if ep.datetime_to_number(ep.number_to_datetime(t)) != t:
                fail(out, "Epoch round trip number -> datetime -> number changes the value", "c12", payload, t=t)
    except BaseException as e:
        fail(out, "datetime-specified model raised", "c12", payload, err=str(e)[:200])
    if payload["index"] == 0:
        out["sample"] = {"program": prog["build"][:6], "compartments": names[:8], "times": want_times}
    return out
