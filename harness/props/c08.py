"""C08 — each derived output equals its definition applied to the solved trajectory."""
import random
import numpy as np
from common import *

ID = "C08"
THEOREM_FILES = ["Summer.Props.C08", "Summer.Props.C08Source", "Summer.Props.C08Values", "Summer.Props.C07Pipeline", "Summer.Props.C14Source", "Summer.Props.C08EndToEnd"]
TASK = "task"
RULE = ("programs with 1-8 requests of all kinds (compartment, raw and non-raw flow, aggregate, cumulative with start None/t0/interior, "
        "function of earlier outputs and parameters, computed value) chained to depth 4, strata filters, run with euler / rk4 / adaptive; "
        "the derived outputs are compared with the model's Derived.derivedOutputs evaluated on the same kind of trajectory, and a direct "
        "Python re-computation of each definition from the implementation's own outputs is applied as oracle; (b) every second program is run "
        "again on the same model object without rebuilding at other parameter values; (c) a whitelist made only of compartment / aggregate / cumulative "
        "outputs whose flow / computed-value sources are not listed; non-trivial when >= 2 requests")
TRUSTED = ["Spec.derived in lean/Summer/Spec/Derived.lean is the reading of the property's definitions"]
ASSUMPTIONS = ["float rounding not modelled (1e-9 relative; 1e-6 for the adaptive solver's own tolerance-dependent trajectory)"]

def payloads(tier, seed):
    n = 90 if tier == "quick" else 1800
    return [{"seed": seed, "index": i} for i in range(n)]

def direct_oracle(prog, I, py, out, payload, params=None, only=None):
    """re-compute every request from the implementation's own trajectory (Lean-independent)"""
    if params is not None:
        prog = dict(prog, params=params)
    m = I.model
    outputs = np.array(py["outputs"])
    times = np.array(m.times)
    got = dict((k, np.array(v)) for k, v in py["derived"])
    # raw flow table from one_step at every output row
    r = I.runner if I.runner is not None else I._get_runner({k: float(Fr(v)) for k, v in prog["params"].items()})
    p = {k: float(Fr(v)) for k, v in prog["params"].items()}
    import jax.numpy as jnp
    rows = []
    cvs = []
    rr = m.get_runner(p, jit=False)
    for i in range(len(times)):
        st = rr.impl_dict["one_step"](p, float(times[i]), jnp.array(outputs[i]))
        rows.append(np.asarray(st.flow_rates))
        cvs.append({k: float(np.asarray(v)) for k, v in st.ts_graph_vals["computed_values"].items()})
    flows = np.array(rows)
    vals = {}
    for op in prog["build"]:
        if op["op"] != "request":
            continue
        k = op["kind"]; nm = op["name"]
        if k == "comp":
            flt = dict(op.get("strata") or [])
            idx = [i for i, c in enumerate(m.compartments) if c.name in op["comps"] and all(c.strata.get(a) == b for a, b in flt.items())]
            v = outputs[:, idx].sum(axis=1) if idx else np.zeros(len(times))
        elif k == "flow":
            ss = dict(op.get("src_strata") or []); ds = dict(op.get("dst_strata") or [])
            idx = [i for i, f in enumerate(m.flows) if f.name == op["flow"]
                   and (f.source is None or all(f.source.strata.get(a) == b for a, b in ss.items()))
                   and (f.dest is None or all(f.dest.strata.get(a) == b for a, b in ds.items()))]
            raw = flows[:, idx].sum(axis=1) if idx else np.zeros(len(times))
            if op["raw"]:
                v = raw
            else:
                v = raw.copy()
                v[1:] = 0.5 * (raw[1:] + raw[:-1])
        elif k == "agg":
            v = sum(vals[s] for s in op["sources"])
        elif k == "cum":
            src = vals[op["source"]]
            st = op.get("start")
            if st is None:
                v = np.cumsum(src)
            else:
                stv = float(Fr(st))
                i0 = int(np.where(times == stv)[0][0])
                v = np.zeros(len(times)); v[i0:] = np.cumsum(src[i0:])
        elif k == "func":
            def ev(e):
                if "x" in e: return vals[op["sources"][int(e["x"])]]
                if "c" in e: return float(Fr(e["c"]))
                if "p" in e: return p[e["p"]]
                for b, f in (("+", lambda a, c: a + c), ("-", lambda a, c: a - c), ("*", lambda a, c: a * c), ("/", lambda a, c: a / c)):
                    if b in e: return f(ev(e[b][0]), ev(e[b][1]))
            v = ev(op["expr"]) * np.ones(len(times))
        elif k == "cv":
            v = np.array([c[nm] for c in cvs])
        vals[nm] = v
        if (op.get("save", True) or only is not None) and nm in got and (only is None or nm in only):
            if not vec_close(list(got[nm]), list(v), 1e-9):
                fail(out, f"derived output {nm} ({k}) differs from its definition applied to the trajectory", "c08", payload,
                     request=op, got=list(map(float, got[nm])), definition=list(map(float, v)), program=prog["build"], params=prog["params"])
    return vals

def task(W, payload):
    r = random.Random(f"C08:{payload['seed']}:{payload['index']}")
    prog = Gen(r, Opts(n_requests=8, max_strats=2, max_flows=6, negative_start_bias=0.4)).program()
    # migration-like flows: one flow name with a copy s->d and a copy d->s between two different strata of the same compartment, and two
    # requests that differ only in WHICH END carries the strata filter (outflow from s vs inflow into s)
    comps = prog["meta"]["comps"]
    by_name = {}
    for n_, st in comps:
        if st: by_name.setdefault(n_, []).append(st)
    cands = [n_ for n_, sts in by_name.items() if len(sts) >= 2]
    if cands and r.random() < 0.5:
        n_ = r.choice(cands); s_, d_ = r.sample(by_name[n_], 2)
        first_req = next((i for i, op in enumerate(prog["build"]) if op["op"] in ("request", "computed_value")), len(prog["build"]))
        mig = [{"op": "flow", "kind": "transition", "name": "mig", "param": {"c": "1/8"}, "src": n_, "dst": n_, "src_strata": s_, "dst_strata": d_},
               {"op": "flow", "kind": "transition", "name": "mig", "param": {"c": "1/16"}, "src": n_, "dst": n_, "src_strata": d_, "dst_strata": s_}]
        prog["build"][first_req:first_req] = mig
        prog["build"] += [{"op": "request", "name": "mig_out", "kind": "flow", "flow": "mig", "raw": True, "save": True, "src_strata": s_},
                          {"op": "request", "name": "mig_in", "kind": "flow", "flow": "mig", "raw": True, "save": True, "dst_strata": s_}]
        prog["meta"]["feat"]["migration_pair"] = 1
    S = fresh_session(W)
    out = mk_out(prog)
    if not S.build(prog["build"]):
        bump(out, "build_rejected")
        return out
    nreq = sum(1 for op in prog["build"] if op["op"] == "request")
    h = prog_hash(prog["build"])
    for solver in ("euler", "rk4", "odeint"):
        before = len(S.log)
        tol = 1e-9 if solver != "odeint" else 2e-5
        py, ln = S.run(prog["params"], solver, tol=tol, stages=("S8",) if solver != "odeint" else ())
        out["evals"] += 1
        bump(out, "solver:" + solver)
        tag_diffs(out, S, before, "c08", payload, prog, ("S8",))
        if py.get("ok"):
            if nreq >= 2: out["cases"].append(h + ":" + solver)
            if getattr(S, "last_cut", 10**9) >= len(py["outputs"]):
                try:
                    direct_oracle(prog, S.I, py, out, payload)
                except BaseException as e:
                    bump(out, "oracle_error:" + type(e).__name__)
    # (b) the SAME model object run again, without rebuilding, at other parameter values (also the parameters only derived outputs use)
    if payload["index"] % 2 == 0 and prog["params"]:
        p2 = {k: q(Fr(v) * Fr(3, 2)) for k, v in prog["params"].items()}
        # (a changed solver is ignored without a rebuild, so the runner that is reused must be an euler one)
        S.run(prog["params"], "euler", tol=1e-9, stages=())
        before = len(S.log)
        py, ln = S.run(p2, "euler", tol=1e-9, stages=("S8",), rebuild=False)
        out["evals"] += 1
        bump(out, "second_run_no_rebuild")
        tag_diffs(out, S, before, "c08", payload, prog, ("S8",))
        if py.get("ok") and getattr(S, "last_cut", 10**9) >= len(py["outputs"]):
            if nreq >= 2: out["cases"].append(h + ":second_run")
            try:
                S.I.runner = None
                direct_oracle(prog, S.I, py, out, payload, params=p2)
            except BaseException as e:
                bump(out, "oracle_error:" + type(e).__name__)
    # (c) a whitelist of compartment / aggregate / cumulative outputs only, whose sources (flow and computed-value outputs) are not listed
    reqs = [op for op in prog["build"] if op["op"] == "request"]
    byname = {op["name"]: op for op in reqs}
    def depends_on_hidden(op, depth=0):
        srcs = op.get("sources") or ([op["source"]] if op.get("source") else [])
        return any(byname[s_]["kind"] in ("flow", "cv") or depends_on_hidden(byname[s_], depth + 1) for s_ in srcs if s_ in byname)
    wl = [op["name"] for op in reqs if op["kind"] in ("comp", "agg", "cum") and (op["kind"] == "comp" or depends_on_hidden(op))]
    if any(byname[n_]["kind"] != "comp" for n_ in wl) and not any(op["op"] == "whitelist" for op in prog["build"]):
        S2 = fresh_session(W)
        ops2 = prog["build"] + [{"op": "whitelist", "names": wl}]
        if S2.build(ops2):
            before = len(S2.log)
            py, ln = S2.run(prog["params"], "euler", tol=1e-9, stages=("S8",))
            out["evals"] += 1
            bump(out, "whitelist_of_downstream_outputs")
            tag_diffs(out, S2, before, "c08", payload, dict(prog, build=ops2), ("S8",))
            if py.get("ok") and getattr(S2, "last_cut", 10**9) >= len(py["outputs"]):
                out["cases"].append(h + ":whitelist")
                try:
                    direct_oracle(prog, S2.I, py, out, payload, only=set(wl))
                except BaseException as e:
                    bump(out, "oracle_error:" + type(e).__name__)
    if payload["index"] == 0:
        out["sample"] = {"program": prog["build"], "params": prog["params"]}
    return out
