"""C18 — no flow draws people out of an empty compartment."""
import random, itertools
import numpy as np
from common import *

ID = "C18"
THEOREM_FILES = ["Summer.Props.C18", "Summer.Props.C18Euler", "Summer.Props.C18EndToEnd", "Summer.Props.C01Rates", "Summer.Props.C07Pipeline"]
TASK = "task"
RULE = ("programs with non-negative rates / adjustments / mixing / infectiousness and no absolute flows; boundary states: every subset of "
        "compartments emptied when the model has <= 4 compartments, sampled subsets above, emptied entries 0 or -2^-10, every mixing "
        "category kept positive; oracle on the real code: comp_rates[c] >= 0 for every emptied c; adaptive trajectories never fall below "
        "-50*(atol + rtol*N), and never below -10*(atol + rtol*N) at explicit caller-supplied tolerances on fast epidemics and on coarse output grids "
        "(hundreds of time units between outputs); distinct by program hash + emptied subset, non-trivial when the emptied compartment has an outflow")
TRUSTED = []
ASSUMPTIONS = ["explicit Euler with h*w > 1 overshoots by construction and is not counted as a violation (DESIGN C18)"]

def payloads(tier, seed):
    n = 60 if tier == "quick" else 1200
    return [{"seed": seed, "index": i} for i in range(n)] + [{"seed": seed, "index": i, "mode": "adaptive"} for i in range(12 if tier == "quick" else 200)] \
        + [{"seed": seed, "index": i, "mode": "large"} for i in range(2 if tier == "quick" else 12)]

def adaptive_task(W, payload):
    """trajectory clause for the adaptive solver at the tolerance the CALLER asks for, on models whose compartments run (nearly) empty:
    (a) a fast epidemic (infection rate >> recovery rate) with explicit tight tolerances, (b) a linear chain on a coarse output grid
    (hundreds of time units between outputs) with the default tolerances"""
    r = random.Random(f"C18a:{payload['seed']}:{payload['index']}")
    out = mk_out()
    from interp import Interp
    if payload["index"] % 2 == 0:
        beta = r.choice(["20", "35", "50", "80"]); gamma = r.choice(["1/2", "1", "2"])
        ops = [{"op": "model", "t0": "0", "t1": r.choice(["8", "12"]), "dt": r.choice(["1", "1/2"]), "comps": ["S", "I", "R"], "inf": ["I"]},
               {"op": "init_pop", "dist": [["S", {"c": "999"}], ["I", {"c": "1"}]]},
               {"op": "flow", "kind": "inf_freq", "name": "inf", "param": {"c": beta}, "src": "S", "dst": "I"},
               {"op": "flow", "kind": "transition", "name": "rec", "param": {"c": gamma}, "src": "I", "dst": "R"}]
        tols = [r.choice(["1/1000000000", "1/100000000"]), "1/1000000"]
        bump(out, "adaptive:fast_epidemic")
    else:
        a = r.choice(["1/100", "1/150", "1/200"]); b = r.choice(["1/200", "1/300", "1/400"])
        t1, dt = r.choice([("3000", "1000"), ("4000", "2000"), ("2000", "1000")])
        ops = [{"op": "model", "t0": "0", "t1": t1, "dt": dt, "comps": ["S", "I", "R"], "inf": ["I"]},
               {"op": "init_pop", "dist": [["S", {"c": "900"}], ["I", {"c": "100"}]]},
               {"op": "flow", "kind": "transition", "name": "a", "param": {"c": a}, "src": "S", "dst": "I"},
               {"op": "flow", "kind": "transition", "name": "b", "param": {"c": b}, "src": "I", "dst": "R"}]
        tols = [None, "1/1000000"]
        bump(out, "adaptive:coarse_grid")
    if payload["index"] % 4 == 3:
        # a split with an empty stratum whose other shares sum to slightly MORE than one (accepted: within the API's tolerance): nobody may be
        # placed in the empty stratum, and certainly not a negative number of people
        sh = r.choice([("3/5", "13/32"), ("1/2", "129/256"), ("3/4", "65/256")])
        strata = ["low", "medium", "high"]
        split = [["low", {"c": sh[0]}], ["medium", {"c": sh[1]}], ["high", {"c": "0"}]]
        if r.random() < 0.5:
            strata = ["high", "low", "medium"]
        ops = ops[:2] + [ops[2], ops[3], {"op": "stratify", "kind": "plain", "name": "risk", "strata": strata, "comps": [ops[0]["comps"][0], ops[0]["comps"][1]], "split": split}]
        bump(out, "adaptive:split_with_empty_stratum")
    for tol in tols:
        I = Interp()
        if not all(I.apply(op)["ok"] for op in ops):
            bump(out, "build_rejected"); return out
        op = {"op": "run", "params": [], "solver": "odeint"}
        if tol is not None:
            op["rtol"] = tol; op["atol"] = tol
        rr = I.apply(op)
        out["evals"] += 1
        if not rr["ok"]:
            fail(out, "adaptive run failed", "c18", payload, program=ops, tolerance=tol, err=rr.get("err")); continue
        o = np.array(rr["outputs"])
        tl = 1.4e-4 if tol is None else float(Fr(tol))
        N = float(np.abs(o[0]).sum())
        lim = -10 * (tl + tl * max(N, 1.0))
        out["cases"].append(prog_hash(ops) + ":adaptive:" + str(tol))
        if not np.all(np.isfinite(o)) or o.min() < lim:
            fail(out, "adaptive trajectory falls below zero by more than the requested solver tolerance", "c18", payload, minimum=float(np.nanmin(o)), limit=lim,
                 tolerance=tol, program=ops)
    return out

def large_task(W, payload):
    """a model of realistic size (three compartments under two stratifications of five or six strata: about a hundred compartments and two
    hundred flows) at a state in which many compartments are empty: no empty compartment has a negative rate of change, and every compartment's
    rate is the sum of its inflows minus the sum of its outflows (flow ends read from model.flows)"""
    import interp as interp_mod
    r = random.Random(f"C18L:{payload['seed']}:{payload['index']}")
    out = mk_out()
    na, nb = r.choice([(6, 6), (6, 5), (5, 6)])
    sa = [f"a{i}" for i in range(na)]; sb = [f"b{i}" for i in range(nb)]
    ops = [{"op": "model", "t0": "0", "t1": "2", "dt": "1", "comps": ["S", "I", "R"], "inf": ["I"]},
           {"op": "init_pop", "dist": [["S", {"c": "900"}], ["I", {"c": "100"}]]},
           {"op": "flow", "kind": "inf_freq", "name": "inf", "param": {"c": "1/2"}, "src": "S", "dst": "I"},
           {"op": "flow", "kind": "transition", "name": "rec", "param": {"c": "1/8"}, "src": "I", "dst": "R"},
           {"op": "flow", "kind": "transition", "name": "wane", "param": {"c": "1/16"}, "src": "R", "dst": "S"},
           {"op": "flow", "kind": "universal_death", "name": "mu", "param": {"c": "1/64"}},
           {"op": "flow", "kind": "absolute", "name": "move", "param": {"c": "3"}, "src": "S", "dst": "R"},
           {"op": "stratify", "kind": "plain", "name": "aa", "strata": sa, "comps": ["S", "I", "R"]},
           {"op": "stratify", "kind": "plain", "name": "bb", "strata": sb, "comps": ["S", "I", "R"]}]
    bump(out, f"large_model:{3 * na * nb}_compartments")
    I = interp_mod.Interp()
    for op in ops:
        rr = I.apply(op)
        if not rr["ok"]:
            bump(out, "large_infra:" + str(rr.get("err"))[:60]); return out
    m = I.model
    n = len(m.compartments)
    x = [float(r.randint(1, 50)) if r.random() < 0.5 else 0.0 for _ in range(n)]
    # keep the infectious population and the total positive (frequency-dependent transmission)
    for i_, c in enumerate(m.compartments):
        if c.name == "I" and i_ % 7 == 0: x[i_] = 5.0
    rr = I.apply({"op": "one_step", "params": [], "t": "0", "x": [q(Fr(v)) for v in x]})
    out["evals"] += 1
    if not rr["ok"]:
        fail(out, "one_step raised on a model of about a hundred compartments", "c18", payload, err=rr.get("err"), sizes=[n, len(m.flows)]); return out
    fr = np.array(rr["flow_rates"]); cr = np.array(rr["comp_rates"])
    idx = {str(c): i_ for i_, c in enumerate(m.compartments)}
    want = np.zeros(n)
    for k, f in enumerate(m.flows):
        if f.source is not None: want[idx[str(f.source)]] -= fr[k]
        if f.dest is not None: want[idx[str(f.dest)]] += fr[k]
    out["cases"].append(f"large:{na}:{nb}")
    scale = max(1.0, float(np.abs(fr).sum()))
    if cr.shape != want.shape or np.abs(cr - want).max() > 1e-9 * scale:
        fail(out, "compartment rates of a large model are not inflows minus outflows", "c18", payload, worst=float(np.abs(cr - want).max()) if cr.shape == want.shape else None,
             sizes=[n, len(m.flows)], x=x)
    # absolute flows remove a fixed number whatever the source holds (documented exception); everything else must not drain an empty compartment
    abs_src = {idx[str(f.source)] for f in m.flows if type(f).__name__ == "AbsoluteFlow" and f.source is not None}
    bad = [i_ for i_ in range(n) if x[i_] == 0.0 and i_ not in abs_src and cr[i_] < -1e-12]
    if bad:
        fail(out, "an empty compartment of a large model has a negative rate of change", "c18", payload, compartments=[str(m.compartments[i_]) for i_ in bad[:5]],
             rates=[float(cr[i_]) for i_ in bad[:5]], sizes=[n, len(m.flows)], x=x)
    return out


def task(W, payload):
    if payload.get("mode") == "large":
        return large_task(W, payload)
    if payload.get("mode") == "adaptive":
        return adaptive_task(W, payload)
    r = random.Random(f"C18:{payload['seed']}:{payload['index']}")
    kinds = ["transition", "death", "universal_death", "crude_birth", "repl_birth", "import", "infection", "infection"]
    prog = Gen(r, Opts(kinds=kinds, max_strats=2, max_flows=6, allow_requests=False, allow_computed=False, inexact_split_bias=0.3)).program()
    S = fresh_session(W)
    out = mk_out(prog)
    if not S.build(prog["build"]):
        bump(out, "build_rejected")
        return out
    m = S.I.model
    n = len(m.compartments)
    has_out = [any(f.source is not None and f.source.idx == c for f in m.flows) for c in range(n)]
    comps = prog["meta"]["comps"]
    subsets = []
    if n <= 4:
        for k in range(1, n + 1):
            subsets += list(itertools.combinations(range(n), k))
    else:
        for _ in range(10):
            subsets.append(tuple(sorted(r.sample(range(n), r.randint(1, n - 1)))))
    h = prog_hash(prog["build"])
    t0 = Fr(prog["meta"]["t0"]); dt = Fr(prog["meta"]["dt"])
    for sub in subsets[:15]:
        x = gen_state(r, n, "interior")
        for c in sub:
            x[c] = Fr(0) if r.random() < 0.5 else Fr(-1, 1024)
        x = fix_categories(r, x, comps, prog["meta"]["mixing_strats"])
        emptied = [c for c in sub if x[c] <= 0]
        if not emptied:
            continue
        t = t0 + Fr(r.randint(0, 2 * prog["meta"]["nsteps"]), 2) * dt
        before = len(S.log)
        py, ln = S.one_step(prog["params"], q(t), [q(v) for v in x], stages=("S4", "S5"))
        out["evals"] += 1
        tag_diffs(out, S, before, "c18", payload, prog, ())
        if not py.get("ok"):
            continue
        cr = py["comp_rates"]
        if any(has_out[c] for c in emptied):
            out["cases"].append(h + ":" + ",".join(map(str, emptied)))
        for c in emptied:
            if not (cr[c] >= -1e-12 * max(1.0, max(abs(v) for v in cr))):
                fail(out, "an empty compartment has a negative rate of change", "c18", payload, compartment=c, rate=cr[c], t=q(t),
                     x=[q(v) for v in x], program=prog["build"], params=prog["params"])
    # a second model built IN THE SAME PROCESS from the same definition with the compartments declared in another order: an empty
    # compartment of that model has no negative rate either (nothing may be carried over from the first model)
    names0 = prog["build"][0]["comps"]
    if len(names0) >= 2 and payload["index"] % 2 == 0:
        ops2 = [dict(op) for op in prog["build"]]
        perm = list(names0[1:]) + [names0[0]]
        ops2[0] = dict(ops2[0], comps=perm)
        for op in ops2:
            if op["op"] == "stratify" and sorted(op["comps"]) == sorted(names0):
                op["comps"] = list(perm)
        S2 = fresh_session(W)
        if S2.build(ops2):
            m2 = S2.I.model
            n2 = len(m2.compartments)
            comps2 = [(c.name, list(c.strata.items())) for c in m2.compartments]
            for _ in range(3):
                x = gen_state(r, n2, "interior")
                sub = r.sample(range(n2), r.randint(1, max(1, n2 - 1)))
                for c in sub: x[c] = Fr(0)
                x = fix_categories(r, x, comps2, prog["meta"]["mixing_strats"])
                emptied = [c for c in sub if x[c] <= 0]
                before = len(S2.log)
                py, ln = S2.one_step(prog["params"], q(t0), [q(v) for v in x], stages=("S4", "S5"))
                out["evals"] += 1
                tag_diffs(out, S2, before, "c18", payload, dict(prog, build=ops2), ())
                if py.get("ok"):
                    cr = py["comp_rates"]
                    out["cases"].append(h + ":twin:" + ",".join(map(str, emptied)))
                    for c in emptied:
                        if not (cr[c] >= -1e-12 * max(1.0, max(abs(v) for v in cr))):
                            fail(out, "an empty compartment has a negative rate of change in a second model built in the same process with the compartments in another order",
                                 "c18", payload, compartment=c, rate=cr[c], x=[q(v) for v in x], program=ops2, first_program=prog["build"], params=prog["params"])
    # trajectory minimum for the adaptive solver
    rr = S.I.apply({"op": "run", "params": [[k, v] for k, v in prog["params"].items()], "solver": "odeint"})
    out["evals"] += 1
    if rr["ok"]:
        o = np.array(rr["outputs"])
        if np.all(np.isfinite(o)) and np.abs(o).max() < 1e7:
            N = float(np.abs(o[0]).sum())
            lim = -50 * (1.4e-4 + 1.4e-4 * max(N, 1.0))
            # the property quantifies over states in which every mixing category keeps a positive population: with frequency-dependent
            # transmission the force of infection is 0/0 at an empty category, and a category whose population has decayed to the order of
            # the solver tolerance is empty as far as the solver's internal stages are concerned.  Such runs are outside the quantifier.
            cats = getattr(m, "_mixing_categories", [{}]) or [{}]
            cat_min = min(float(sum(o[i][j] for j, c in enumerate(m.compartments) if all(c.strata.get(k) == v for k, v in cat.items())))
                          for i in range(len(o)) for cat in cats)
            if cat_min < 1000 * (1.4e-4 + 1.4e-4 * max(N, 1.0)) and any(type(f).__name__ == "InfectionFrequencyFlow" for f in m.flows):
                bump(out, "adaptive:category_nearly_empty_skipped")
                o = np.maximum(o, 0.0)      # (skip the bound below)
            if o[0].min() < -1e-9 * max(N, 1.0):
                fail(out, "the initial population has a negative entry although every declared population and split is non-negative", "c18", payload,
                     row0=list(map(float, o[0])), program=prog["build"], params=prog["params"])
            elif o.min() < lim:
                fail(out, "adaptive trajectory falls below zero by more than the solver tolerance", "c18", payload, minimum=float(o.min()), limit=lim,
                     program=prog["build"], params=prog["params"])
    if payload["index"] == 0:
        out["sample"] = {"program": prog["build"], "params": prog["params"]}
    return out
