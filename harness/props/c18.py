"""C18 — no flow draws people out of an empty compartment."""
import random, itertools
import numpy as np
from common import *

ID = "C18"
THEOREM_FILES = ["Summer.Props.C18", "Summer.Props.C18Euler", "Summer.Props.C01Rates"]
TASK = "task"
RULE = ("programs with non-negative rates / adjustments / mixing / infectiousness and no absolute flows; boundary states: every subset of "
        "compartments emptied when the model has <= 4 compartments, sampled subsets above, emptied entries 0 or -2^-10, every mixing "
        "category kept positive; oracle on the real code: comp_rates[c] >= 0 for every emptied c; adaptive trajectories never fall below "
        "-50*(atol + rtol*N); distinct by program hash + emptied subset, non-trivial when the emptied compartment has an outflow")
TRUSTED = []
ASSUMPTIONS = ["explicit Euler with h*w > 1 overshoots by construction and is not counted as a violation (DESIGN C18)"]

def payloads(tier, seed):
    n = 60 if tier == "quick" else 1200
    return [{"seed": seed, "index": i} for i in range(n)]

def task(W, payload):
    r = random.Random(f"C18:{payload['seed']}:{payload['index']}")
    kinds = ["transition", "death", "universal_death", "crude_birth", "repl_birth", "import", "infection", "infection"]
    prog = Gen(r, Opts(kinds=kinds, max_strats=2, max_flows=6, allow_requests=False, allow_computed=False)).program()
    S = fresh_session(W)
    out = mk_out(prog)
    if not S.build(prog["build"]):
        bump(out, "build_rejected")
        return out
    m = S.I.model
    n = len(m.compartments)
    has_out = [any(f.source is not None and f.source.idx == c for f in m.flows) for c in range(n)]
    comps = prog["meta"]["comps"]
    subsets = []
    if n <= 4:
        for k in range(1, n + 1):
            subsets += list(itertools.combinations(range(n), k))
    else:
        for _ in range(10):
            subsets.append(tuple(sorted(r.sample(range(n), r.randint(1, n - 1)))))
    h = prog_hash(prog["build"])
    t0 = Fr(prog["meta"]["t0"]); dt = Fr(prog["meta"]["dt"])
    for sub in subsets[:15]:
        x = gen_state(r, n, "interior")
        for c in sub:
            x[c] = Fr(0) if r.random() < 0.5 else Fr(-1, 1024)
        x = fix_categories(r, x, comps, prog["meta"]["mixing_strats"])
        emptied = [c for c in sub if x[c] <= 0]
        if not emptied:
            continue
        t = t0 + Fr(r.randint(0, 2 * prog["meta"]["nsteps"]), 2) * dt
        before = len(S.log)
        py, ln = S.one_step(prog["params"], q(t), [q(v) for v in x], stages=("S4", "S5"))
        out["evals"] += 1
        tag_diffs(out, S, before, "c18", payload, prog, ())
        if not py.get("ok"):
            continue
        cr = py["comp_rates"]
        if any(has_out[c] for c in emptied):
            out["cases"].append(h + ":" + ",".join(map(str, emptied)))
        for c in emptied:
            if not (cr[c] >= -1e-12 * max(1.0, max(abs(v) for v in cr))):
                fail(out, "an empty compartment has a negative rate of change", "c18", payload, compartment=c, rate=cr[c], t=q(t),
                     x=[q(v) for v in x], program=prog["build"], params=prog["params"])
    # trajectory minimum for the adaptive solver
    rr = S.I.apply({"op": "run", "params": [[k, v] for k, v in prog["params"].items()], "solver": "odeint"})
    out["evals"] += 1
    if rr["ok"]:
        o = np.array(rr["outputs"])
        if np.all(np.isfinite(o)) and np.abs(o).max() < 1e7:
            N = float(np.abs(o[0]).sum())
            lim = -50 * (1.4e-4 + 1.4e-4 * max(N, 1.0))
            if o.min() < lim:
                fail(out, "adaptive trajectory falls below zero by more than the solver tolerance", "c18", payload, minimum=float(o.min()), limit=lim,
                     program=prog["build"], params=prog["params"])
    if payload["index"] == 0:
        out["sample"] = {"program": prog["build"], "params": prog["params"]}
    return out
