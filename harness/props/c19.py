"""C19 — a runner is a traceable array program of its parameters."""
import random, json
import numpy as np
from common import *

ID = "C19"
THEOREM_FILES = ["Summer.Props.C19"]
TASK = "task"
NEEDS_DRIVER = False
RULE = ("Lean side: the control skeleton of every run-time function is regenerated from /repo by harness/translate/gen_skeleton.py and "
        "C19.repo_typed (decide) re-checks that no Python-level decision, container index, concretisation or shape depends on a run-time value; "
        "C19.noninterference turns that into trace equality. Real-tracer oracle: generated programs (all flow kinds, stratifications, time "
        "functions, derived outputs) with every parameter dynamic are traced with jax.make_jaxpr on abstract ShapeDtypeStruct inputs for euler, "
        "rk4 and the adaptive solver (any value-dependent Python decision raises a concretisation error), and a runner jitted once is re-run on "
        "3 further parameter sets and compared with un-jitted runs; distinct by program hash + solver, non-trivial when the program has >= 1 parameter")
TRUSTED = ["the translator's abstraction of Python and its parameter classification table (harness/translate/gen_skeleton.py)", "JAX's tracer (oracle)"]
ASSUMPTIONS = ["user-supplied functions and computegraph internals are assumed traceable", "noninterference requires run-time arrays of equal shape in the two runs"]

def payloads(tier, seed):
    n = 30 if tier == "quick" else 500
    return [{"seed": seed, "index": i} for i in range(n)] + [{"seed": seed, "index": i, "mode": "library"} for i in range(6 if tier == "quick" else 60)]

def search_payloads(tier, seed, diffs):
    return [{"seed": seed + 4243, "index": i} for i in range(150)]

def library_task(W, payload):
    """the time-function library used as flow rates with run-time parameters: `windowed_constant`, the sigmoidal / linear interpolators and
    `get_piecewise_function` with parameter-valued points, traced once (abstract parameters) and compiled once, then evaluated at other values"""
    import jax, jax.numpy as jnp
    from summer2 import CompartmentalModel
    from summer2.parameters import Parameter, Function, Time
    from summer2.functions import time as stf
    from summer2.functions.util import windowed_constant
    r = random.Random(f"C19l:{payload['seed']}:{payload['index']}")
    out = mk_out()
    which = ["windowed_constant", "sigmoidal", "linear", "piecewise"][payload["index"] % 4]
    bump(out, "library:" + which)
    m = CompartmentalModel((0, 8), ["S", "I"], ["I"], timestep=r.choice([1.0, 0.5]))
    m.set_initial_population({"S": 900.0, "I": 100.0})
    if which == "windowed_constant":
        rate = Function(windowed_constant, [Time, Parameter("a"), Parameter("b"), Parameter("c")])
    elif which == "sigmoidal":
        rate = stf.get_sigmoidal_interpolation_function([Parameter("b"), 4.0, 7.0], [Parameter("a"), 0.25, Parameter("c")])
    elif which == "linear":
        rate = stf.get_linear_interpolation_function([Parameter("b"), 4.0, 7.0], [Parameter("a"), 0.25, Parameter("c")])
    else:
        rate = stf.get_piecewise_function([Parameter("b"), 5.0], [Parameter("a"), 0.25, Parameter("c")])
    m.add_importation_flow("imp", rate, "I", split_imports=False)
    m.add_transition_flow("si", Parameter("a"), "S", "I")
    params = {"a": r.choice([0.125, 0.5]), "b": r.choice([1.0, 2.5]), "c": r.choice([0.375, 3.0])}
    def classify(e):
        chain = []; x = e
        while x is not None and len(chain) < 6:
            chain.append(type(x).__name__); x = x.__cause__ or x.__context__
        name = "/".join(chain)
        return name, any(k in (name + " " + str(e)[:2000]) for k in ("Concretization", "TracerBool", "TracerInteger", "TracerArrayConversion", "NonConcreteBooleanIndex"))
    for solver in ("euler", "rk4", "odeint"):
        try:
            runner = m.get_runner(params, jit=False, solver=solver)
            abstract = {k: jax.ShapeDtypeStruct((), jnp.float64) for k in params}
            jax.make_jaxpr(lambda p: runner._run_func(parameters=p))(abstract)
            out["evals"] += 1
            out["cases"].append(f"library:{which}:{solver}")
        except BaseException as e:
            name, tracer = classify(e)
            if tracer:
                fail(out, f"a model whose rate is the library function {which} needs the concrete value of a run-time quantity ({name}) with solver {solver}", "c19", payload,
                     error=str(e)[:600], solver=solver, function=which, params=params)
            else:
                bump(out, "trace_other_error:" + name)
    try:
        jr = m.get_runner(params, jit=True, solver="euler"); pr = m.get_runner(params, jit=False, solver="euler")
        for k in range(2):
            p2 = {a: b * r.choice([0.5, 1.5, 0.75]) for a, b in params.items()}
            oa = np.asarray(jr._run_func(parameters=p2)["outputs"]); ob = np.asarray(pr._run_func(parameters=p2)["outputs"])
            out["evals"] += 1
            if np.all(np.isfinite(ob)) and not mat_close(oa.tolist(), ob.tolist(), 1e-9):
                fail(out, f"a compiled runner using {which} gives different results from an uncompiled evaluation at other parameter values", "c19", payload, params=p2, function=which)
    except BaseException as e:
        name, tracer = classify(e)
        if tracer:
            fail(out, f"jit-compiling a runner that uses the library function {which} fails ({name})", "c19", payload, error=str(e)[:600], function=which, params=params)
        else:
            bump(out, "jit_other_error:" + name)
    return out


def task(W, payload):
    if payload.get("mode") == "library":
        return library_task(W, payload)
    import jax, jax.numpy as jnp
    r = random.Random(f"C19:{payload['seed']}:{payload['index']}")
    # every third program supplies the whole initial population as an array graph object of parameters (init_population_with_graphobject)
    shared_role = payload["index"] % 3 == 1
    prog = Gen(r, Opts(max_strats=2, max_flows=5, n_requests=4, allow_rebalance=True, allow_array_pop=(payload["index"] % 3 == 0),
                       allow_param_split=not shared_role, mixing_pair_bias=(0.7 if payload["index"] % 3 == 2 else 0.0),
                       force_infection=(payload["index"] % 3 == 2))).program()
    out = mk_out(prog)
    if shared_role:
        # ONE parameter object in two roles: the rate of an (earlier registered) importation flow and the only parameterised entry of the
        # initial distribution; every other population input is a constant
        ip = [op for op in prog["build"] if op["op"] == "init_pop"]
        if ip:
            def constify(e):
                return {"c": q(Fr(r.randint(1, 60)))} if ("p" in json.dumps(e)) else e
            ip[0]["dist"] = [[k, constify(e)] for k, e in ip[0]["dist"]]
            tgt = r.randrange(len(ip[0]["dist"]))
            ip[0]["dist"][tgt][1] = {"p": "shr"}
            prog["params"]["shr"] = q(Fr(r.choice([10, 25, 40])))
            at = prog["build"].index(ip[0]) + 1
            prog["build"].insert(at, {"op": "flow", "kind": "import", "name": "imports", "param": {"p": "shr"}, "dst": ip[0]["dist"][tgt][0], "split": False})
            bump(out, "one_parameter_in_two_roles")
    if any(op["op"] == "init_pop_array" for op in prog["build"]): bump(out, "array_population")
    # every second program: some parameters carry nested (dotted) names, as models configured from nested dictionaries do
    if payload["index"] % 2 == 1 and prog["params"]:
        ren = {k: (f"grp.{k}" if i % 2 == 0 else f"cfg.sub.{k}") for i, k in enumerate(sorted(prog["params"])) if i % 3 != 2}
        prog["build"] = map_program_exprs(prog["build"], lambda e: ({"p": ren.get(e["p"], e["p"])} if "p" in e else e))
        prog["params"] = {ren.get(k, k): v for k, v in prog["params"].items()}
        bump(out, "nested_parameter_names")
    from interp import Interp
    I = Interp()
    for op in prog["build"]:
        if not I.apply(op)["ok"]:
            bump(out, "build_rejected"); return out
    params = {k: float(Fr(v)) for k, v in prog["params"].items()}
    h = prog_hash(prog["build"])
    m = I.model
    for solver in ("euler", "rk4", "odeint"):
        try:
            runner = m.get_runner(params, jit=False, solver=solver)
        except BaseException as e:
            bump(out, "runner_build_failed"); break
        abstract = {k: jax.ShapeDtypeStruct((), jnp.float64) for k in params}
        try:
            jaxpr = jax.make_jaxpr(lambda p: runner._run_func(parameters=p))(abstract)
            out["evals"] += 1
            bump(out, "traced:" + solver)
            if params: out["cases"].append(h + ":" + solver)
        except BaseException as e:
            # the compute graph wraps errors raised inside a node (GraphRunError, a BaseException): look through the chain
            chain = []; x = e
            while x is not None and len(chain) < 6:
                chain.append(type(x).__name__); x = x.__cause__ or x.__context__
            name = "/".join(chain)
            text = name + " " + str(e)[:2000]
            if any(k in text for k in ("Concretization", "TracerBool", "TracerInteger", "TracerArrayConversion", "NonConcreteBooleanIndex")):
                fail(out, f"executing the model needs the concrete value of a run-time quantity ({name}) with solver {solver}", "c19", payload,
                     error=str(e)[:600], solver=solver, program=prog["build"], params=prog["params"])
            else:
                bump(out, "trace_other_error:" + name)
            continue
    # compile once, reuse for other parameter values
    try:
        runner = m.get_runner(params, jit=True, solver="euler")
        plain = m.get_runner(params, jit=False, solver="euler")
        for k in range(3):
            p2 = {a: b * r.choice([0.5, 1.0, 1.5, 0.75]) for a, b in params.items()}
            a = runner._run_func(parameters=p2); b = plain._run_func(parameters=p2)
            out["evals"] += 1
            oa = np.asarray(a["outputs"]); ob = np.asarray(b["outputs"])
            if np.all(np.isfinite(ob)) and np.abs(ob).max() < 1e7 and not mat_close(oa.tolist(), ob.tolist(), 1e-9):
                fail(out, "a runner compiled once gives different results from a fresh evaluation at other parameter values", "c19", payload,
                     params=p2, program=prog["build"])
            # ... and so must its derived outputs, against a runner BUILT at these values (a parameter that only derived outputs use
            # must not be baked into the compiled program as the constant it had when the runner was built)
            fresh = m.get_runner(p2, jit=False, solver="euler")._run_func(parameters=p2)
            of = np.asarray(fresh["outputs"])
            if np.all(np.isfinite(of)) and np.abs(of).max() < 1e7 and not mat_close(oa.tolist(), of.tolist(), 1e-9):
                fail(out, "a runner compiled once gives different results from a runner built at the new parameter values (a run-time parameter was baked into the program)",
                     "c19", payload, params=p2, built_with=params, program=prog["build"])
            da, df = a["derived_outputs"], fresh["derived_outputs"]
            if sorted(da) != sorted(df):
                fail(out, "a runner compiled once returns different derived outputs names at other parameter values", "c19", payload, params=p2, program=prog["build"])
            else:
                for kk in da:
                    x, y = np.asarray(da[kk], dtype=float), np.asarray(df[kk], dtype=float)
                    if np.all(np.isfinite(y)) and np.abs(y).max() < 1e7 and (x.shape != y.shape or np.abs(x - y).max() > 1e-9 * max(1.0, float(np.abs(y).max()))):
                        fail(out, f"a runner compiled once gives a different derived output '{kk}' from a runner built at the new parameter values", "c19", payload,
                             params=p2, built_with=params, program=prog["build"])
                        break
    except BaseException as e:
        chain = []; x = e
        while x is not None and len(chain) < 6:
            chain.append(type(x).__name__); x = x.__cause__ or x.__context__
        name = "/".join(chain)
        if any(k in (name + " " + str(e)[:2000]) for k in ("Concretization", "TracerBool", "TracerInteger", "TracerArrayConversion", "NonConcreteBooleanIndex")):
            fail(out, f"jit-compiling the runner fails ({name})", "c19", payload, error=str(e)[:600], program=prog["build"], params=prog["params"])
        else:
            bump(out, "jit_other_error:" + name)
    if payload["index"] == 0:
        out["sample"] = {"program": prog["build"], "params": prog["params"]}
    return out
