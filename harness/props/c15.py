"""C15 — results are independent of ordering, labels, time origin and population scale."""
import random, copy
import numpy as np
from common import *

ID = "C15"
THEOREM_FILES = ["Summer.Props.C15", "Summer.Props.C15PermComps", "Summer.Props.C08Values", "Summer.Props.C05Source", "Summer.Props.C17Glue"]
TASK = "task"
RULE = ("metamorphic on the real code, two builds of the same model matched by (compartment name, sorted strata): (perm) compartments, flow "
        "declarations and strata (with the rows/columns of the mixing matrix) shuffled, two adjacent independent stratifications swapped; "
        "(rename) compartments, stratifications and strata renamed injectively; (order) a transition / infection / death flow added before vs "
        "after an unadjusted stratification covering both its ends; (shift) time span of a time-free model shifted; (scale) populations and "
        "absolute inflows times k, contact rate / k for density dependence; compared with one_step and euler / rk4 / adaptive runs; distinct by "
        "program hash + variant, non-trivial when the model has >= 1 stratification or >= 3 flows")
TRUSTED = []
ASSUMPTIONS = ["the adaptive solver's absolute tolerance is not scale invariant: scaled trajectories are compared at the PRECISE tolerance to 1e-4 relative",
               "'strain' (stratification name) and 'default' (strain label) are hard-coded at run time and are not renamed"]

VARIANTS = ["perm", "rename", "order", "shift", "scale", "swap"]

def payloads(tier, seed):
    n = 60 if tier == "quick" else 1200
    return [{"seed": seed, "index": i, "variant": VARIANTS[i % len(VARIANTS)]} for i in range(n)]

def build(ops):
    from interp import Interp
    I = Interp()
    for op in ops:
        r = I.apply(op)
        if not r["ok"]:
            return None
    return I

def ckey(c):
    return (c.name, tuple(sorted(c.strata.items())))

def runs(I, params, solvers=("euler", "rk4", "odeint")):
    out = {}
    for s in solvers:
        kw = {"rtol": "7/500000000", "atol": "7/500000000"} if s == "odeint" else {}
        r = I.apply(dict({"op": "run", "params": [[k, v] for k, v in params.items()], "solver": s}, **kw))
        out[s] = np.array(r["outputs"]) if r["ok"] else None
        out[s + ":derived"] = dict((k, np.array(v)) for k, v in r["derived"]) if r["ok"] else None
    return out

def compare(out, payload, what, I0, I1, params0, params1, ops0, ops1, keymap=lambda k: k, factor=1.0):
    k0 = [ckey(c) for c in I0.model.compartments]
    k1 = [ckey(c) for c in I1.model.compartments]
    mk0 = [keymap(k) for k in k0]
    if sorted(mk0) != sorted(k1):
        fail(out, f"{what}: the two builds do not have the same compartments", "c15", payload, a=[str(k) for k in mk0][:8], b=[str(k) for k in k1][:8], program=ops0, variant_program=ops1)
        return False
    perm = [k1.index(k) for k in mk0]
    r0 = runs(I0, params0); r1 = runs(I1, params1)
    ok = True
    for s in [k for k in r0 if not k.endswith(":derived")]:
        a, b = r0[s], r1[s]
        out["evals"] += 1
        # derived outputs (time shift only: every request kind is invariant under a shift of a time-free model, cumulative start times shifted along)
        if what == "shift" and a is not None and b is not None:
            d0, d1 = r0[s + ":derived"], r1[s + ":derived"]
            if sorted(d0) != sorted(d1):
                fail(out, f"{what}: derived output names differ ({s})", "c15", payload, program=ops0, variant_program=ops1); ok = False
            else:
                for k in d0:
                    x, y = d0[k], d1[k]
                    if not (np.all(np.isfinite(x)) and np.all(np.isfinite(y))): continue
                    Nd = max(1.0, float(np.abs(x).max()))
                    told = 1e-9 * Nd if s != "odeint" else 1e-4 * Nd
                    if x.shape != y.shape or np.abs(x - y).max() > told:
                        fail(out, f"{what}: derived output {k} differs ({s})", "c15", payload, worst=float(np.abs(x - y).max()) if x.shape == y.shape else None,
                             tol=told, program=ops0, variant_program=ops1, params=params0)
                        ok = False; break
        if a is None or b is None:
            if (a is None) != (b is None):
                fail(out, f"{what}: one build runs and the other fails ({s})", "c15", payload, program=ops0, variant_program=ops1); ok = False
            continue
        if not (np.all(np.isfinite(a)) and np.all(np.isfinite(b))) or max(np.abs(a).max(), np.abs(b).max()) > 1e7:
            bump(out, "diverged"); continue
        if a.min() < -1e-9 or b.min() < -1e-9:
            bump(out, "negative_states_skipped"); continue
        b2 = b[:, perm]
        N = max(1.0, float(np.abs(a).max()) * abs(factor))
        tol = 1e-9 * N if s != "odeint" else 1e-4 * N      # adaptive runs (PRECISE tolerance): inputs with kinks (piecewise-linear rates) leave a global error of a few 1e-5 relative, differently for the two presentations
        if a.shape != b2.shape or np.abs(a * factor - b2).max() > tol:
            fail(out, f"{what}: outputs differ ({s})", "c15", payload, worst=float(np.abs(a * factor - b2).max()) if a.shape == b2.shape else None, tol=tol,
                 program=ops0, variant_program=ops1, params=params0)
            ok = False
    return ok

def task(W, payload):
    variant = payload["variant"]
    r = random.Random(f"C15:{payload['seed']}:{payload['index']}")
    opts = Opts(max_strats=2, max_flows=6, allow_requests=False, allow_computed=False, allow_state=False, small_dt=True, max_steps=6, allow_rebalance=False)
    if variant == "shift":
        opts.allow_time = False; opts.allow_requests = True; opts.n_requests = 4; opts.negative_start_bias = 0.3
    if variant == "rename" and (payload["index"] // len(VARIANTS)) % 2 == 1:
        # every second renaming program: a strain stratification (the renaming reverses the alphabetical order of the strain names), strains that differ
        opts.strain_bias = 0.8; opts.force_strat = True; opts.force_infection = True
    if variant == "rename":
        # two mixing-carrying stratifications and an infection flow: the renaming below REVERSES the alphabetical order of the stratification names
        opts.mixing_pair_bias = 0.6; opts.force_infection = True
    if variant == "perm":
        opts.inf_adjust_bias = 0.9; opts.force_infection = True; opts.two_infectious = True     # several infectious compartments with their own infectiousness adjustments, listed in another order
        opts.inexact_split_bias = 0.9 if (payload["index"] // len(VARIANTS)) % 2 == 0 else 0.4
        if (payload["index"] // len(VARIANTS)) % 2 == 0: opts.force_strat = True; opts.split_bias = 0.95; opts.allow_param_split = False; opts.inexact_split_bias = 1.0; opts.age_bias = 0.6    # splits that sum to one only within the API's tolerance: reordering the strata must still only permute the results
    if variant == "perm" and (payload["index"] // len(VARIANTS)) % 2 == 1:
        opts.force_strat = True      # (the shared-object half of the permutation variant needs a stratification to share)
    if variant in ("order", "swap"): opts.allow_post_flows = False
    if variant == "swap": opts.max_strats = 2; opts.force_strat = True
    g = Gen(r, opts)
    prog = g.program()
    out = mk_out(prog)
    bump(out, "variant:" + variant)
    ops = prog["build"]; params = dict(prog["params"])
    h = prog_hash(ops)
    ops1 = copy.deepcopy(ops); params1 = dict(params)
    keymap = lambda k: k
    factor = 1.0
    if variant == "perm":
        names = ops1[0]["comps"][:]; r.shuffle(names); ops1[0]["comps"] = names
        ops1[0]["inf"] = list(reversed(ops1[0]["inf"]))      # the infectious compartments listed in the other order
        # shuffle maximal runs of flow ops
        i = 0
        while i < len(ops1):
            j = i
            while j < len(ops1) and ops1[j]["op"] == "flow": j += 1
            if j - i >= 2:
                seg = ops1[i:j]; r.shuffle(seg); ops1[i:j] = seg
            i = max(j, i + 1)
        # every second time the two presentations SHARE their Stratification objects (scenario models built from common building blocks do):
        # the strata order is then kept, and age stratifications and stratifications carrying a mixing matrix (both validated against the compartment ORDER) are not shared
        share_mode = (payload["index"] // len(VARIANTS)) % 2 == 1
        if share_mode:
            bump(out, "perm:shared_stratification_objects")
            for i_, (o0, o1) in enumerate(zip(ops, ops1)):
                if o0["op"] == "stratify" and not o0.get("mixing") and o0["kind"] != "age":
                    o0["share"] = o1["share"] = f"c15:{payload['seed']}:{payload['index']}:{i_}"
        for op in ops1:
            if op["op"] == "stratify" and op["kind"] != "age" and len(op["strata"]) >= 2 and not share_mode:
                idx = list(range(len(op["strata"]))); r.shuffle(idx)
                if idx[-1] == len(idx) - 1: idx = idx[1:] + idx[:1]     # a different stratum is declared last
                op["strata"] = [op["strata"][k] for k in idx]
                if op.get("mixing"):
                    op["mixing"] = [[op["mixing"][a][b] for b in idx] for a in idx]
                # stratified compartment lists are order sensitive for mixing (list equality with the original names): keep comps order tied to names
            if op["op"] == "stratify" and op["kind"] == "age" and len(op["strata"]) >= 2 and not share_mode:
                # age breakpoints listed in another order (three or more: the youngest first, the others reversed; two: swapped): the age groups are the same
                srt = sorted(op["strata"], key=int)
                other = ([srt[0]] + list(reversed(srt[1:]))) if len(srt) >= 3 else list(reversed(srt))
                op["strata"] = other if op["strata"] == srt else srt
                bump(out, "perm:age_breakpoints_reordered")
            if op["op"] == "stratify":
                full = sorted(op["comps"]) == sorted(ops[0]["comps"])
                if full: op["comps"] = list(names)
    elif variant == "rename":
        cmap = {n: n + "z" for n in ops[0]["comps"]}
        smap = {}
        vmap = {}
        plain_sorted = sorted(op["name"] for op in ops if op["op"] == "stratify" and op["kind"] == "plain")
        for op in ops:
            if op["op"] == "stratify":
                if op["kind"] == "plain": smap[op["name"]] = "zyxwvu"[plain_sorted.index(op["name"]) % 6] + op["name"] + "q"
                if op["kind"] == "strain":
                    # the renaming REVERSES the alphabetical order of the strain names
                    srt = sorted(op["strata"])
                    for s in op["strata"]: vmap[(op["name"], s)] = "zyxwvu"[srt.index(s) % 6] + s
                elif op["kind"] != "age":
                    for s in op["strata"]: vmap[(op["name"], s)] = s + "w"
        def rn_strata(flt):
            return [[smap.get(k, k), vmap.get((k, v), v)] for k, v in (flt or [])]
        for op in ops1:
            if op["op"] == "model":
                op["comps"] = [cmap[n] for n in op["comps"]]; op["inf"] = [cmap[n] for n in op["inf"]]
            elif op["op"] == "init_pop":
                op["dist"] = [[cmap[k], e] for k, e in op["dist"]]
            elif op["op"] == "flow":
                for k in ("src", "dst"):
                    if op.get(k) is not None: op[k] = cmap[op[k]]
                for k in ("src_strata", "dst_strata"):
                    if op.get(k): op[k] = rn_strata(op[k])
                op["name"] = op["name"] + "f"
            elif op["op"] == "stratify":
                old = op["name"]
                op["comps"] = [cmap[n] for n in op["comps"]]
                op["strata"] = [vmap.get((old, s), s) for s in op["strata"]]
                for key in ("split",):
                    if op.get(key): op[key] = [[vmap.get((old, s), s), e] for s, e in op[key]]
                for d in op.get("flow_adj") or []:
                    d["flow"] = d["flow"] + "f"
                    d["adjs"] = [[vmap.get((old, s), s), a] for s, a in d["adjs"]]
                    for k in ("src", "dst"):
                        if d.get(k): d[k] = rn_strata(d[k])
                if op.get("inf_adj"):
                    op["inf_adj"] = [[cmap[c], [[vmap.get((old, s), s), a] for s, a in adjs]] for c, adjs in op["inf_adj"]]
                op["name"] = smap.get(old, old)
        keymap = lambda k: (cmap[k[0]], tuple(sorted((smap.get(a, a), vmap.get((a, b), b)) for a, b in k[1])))
    elif variant == "order":
        # find a stratification and add a new flow either before or after it
        sidx = [i for i, op in enumerate(ops) if op["op"] == "stratify" and op["kind"] != "age"]
        if not sidx:
            bump(out, "not_applicable"); return out
        i = r.choice(sidx)
        s = ops[i]
        if len(s["comps"]) < 1: bump(out, "not_applicable"); return out
        kind = r.choice(["transition", "death", g.inf_kind])
        src = r.choice(s["comps"]); dst = r.choice(s["comps"])
        new = {"op": "flow", "kind": kind, "name": "moved", "param": {"c": "1/8"}}
        if kind == "death": new["src"] = src
        else: new["src"] = src; new["dst"] = dst
        if kind in ("inf_freq", "inf_dens"): new["param"] = {"c": "1/128"}
        # earlier stratifications must cover both ends equally, else the zip of sources and destinations is ill-defined in both orders
        a = ops[:i] + [new] + ops[i:]
        b = ops[:i + 1] + [new] + ops[i + 1:]
        ops, ops1 = a, b
    elif variant == "shift":
        # always at least one cumulative output that starts strictly inside the time span
        t0_, dt_, ns_ = Fr(prog["meta"]["t0"]), Fr(prog["meta"]["dt"]), int(prog["meta"]["nsteps"])
        if ns_ >= 2:
            extra = [{"op": "request", "name": "sh_tot", "kind": "comp", "comps": [ops[0]["comps"][0]], "save": True},
                     {"op": "request", "name": "sh_cum", "kind": "cum", "source": "sh_tot", "start": q(t0_ + r.randint(1, ns_ - 1) * dt_), "save": True}]
            ops += extra; ops1 += copy.deepcopy(extra)
        delta = r.choice([Fr(5), Fr(-3), Fr(7, 2), Fr(100)])
        starts = [Fr(op["start"]) for op in ops if op["op"] == "request" and op["kind"] == "cum" and op.get("start") is not None]
        if starts and r.random() < 0.6:
            s0 = r.choice(starts)
            if s0 != 0: delta = -s0        # a cumulative output whose (shifted) start time is exactly 0
            bump(out, "shift:cum_start_to_zero")
        ops1[0]["t0"] = q(Fr(ops[0]["t0"]) + delta); ops1[0]["t1"] = q(Fr(ops[0]["t1"]) + delta)
        for op in ops1:
            if op["op"] == "request" and op["kind"] == "cum" and op.get("start") is not None:
                op["start"] = q(Fr(op["start"]) + delta)
    elif variant == "scale":
        k = r.choice([Fr(2), Fr(10), Fr(1, 2), Fr(1000)])
        factor = float(k)
        dens = g.inf_kind == "inf_dens"
        for op in ops1:
            if op["op"] == "init_pop":
                op["dist"] = [[n, {"*": [e, {"c": q(k)}]}] for n, e in op["dist"]]
            if op["op"] == "flow" and op["kind"] in ("import", "absolute"):
                op["param"] = {"*": [op["param"], {"c": q(k)}]}
            if op["op"] == "flow" and op["kind"] == "inf_dens":
                op["param"] = {"/": [op["param"], {"c": q(k)}]}
            if op["op"] == "stratify":
                for d in op.get("flow_adj") or []:
                    # an Overwrite on an import / absolute / density-infection flow replaces the scaled parameter: scale it too
                    tgt = [f for f in ops if f["op"] == "flow" and f["name"] == d["flow"]]
                    if tgt and tgt[0]["kind"] in ("import", "absolute"):
                        d["adjs"] = [[s_, (a if a is None or a[0] != "ovr" else ["ovr", {"*": [a[1], {"c": q(k)}]}])] for s_, a in d["adjs"]]
                    if tgt and tgt[0]["kind"] == "inf_dens":
                        d["adjs"] = [[s_, (a if a is None or a[0] != "ovr" else ["ovr", {"/": [a[1], {"c": q(k)}]}])] for s_, a in d["adjs"]]
    elif variant == "swap":
        sidx = [i for i, op in enumerate(ops) if op["op"] == "stratify"]
        pairs = [(a, b) for a, b in zip(sidx, sidx[1:]) if b == a + 1]
        if not pairs:
            bump(out, "not_applicable"); return out
        a, b = r.choice(pairs)
        A, B = ops[a], ops[b]
        def mentions(op, name):
            for d in op.get("flow_adj") or []:
                for k in ("src", "dst"):
                    if any(kv[0] == name for kv in (d.get(k) or [])): return True
            return False
        def has_ovr(op):
            return any(x is not None and x[0] == "ovr" for d in (op.get("flow_adj") or []) for _, x in d["adjs"]) or \
                   any(x is not None and x[0] == "ovr" for _, adjs in (op.get("inf_adj") or []) for _, x in adjs)
        if mentions(B, A["name"]) or mentions(A, B["name"]) or has_ovr(A) or has_ovr(B) or "age" in (A["kind"], B["kind"]):
            bump(out, "not_independent"); return out
        ops1[a], ops1[b] = copy.deepcopy(B), copy.deepcopy(A)
    import interp as interp_mod
    shared_keys = [op["share"] for op in ops if op.get("share")]
    for k_ in shared_keys: interp_mod.SHARED_STRATS.pop(k_, None)
    I0 = build(ops); I1 = build(ops1)
    for k_ in shared_keys: interp_mod.SHARED_STRATS.pop(k_, None)
    if I0 is None or I1 is None:
        if (I0 is None) != (I1 is None) and variant in ("perm", "rename", "shift", "scale"):
            fail(out, f"{variant}: one presentation of the model is accepted and the other rejected", "c15", payload, program=ops, variant_program=ops1)
        bump(out, "build_rejected"); return out
    ok = compare(out, payload, variant, I0, I1, params, params1, ops, ops1, keymap, factor)
    if (prog["meta"]["strats"] or len(I0.model.flows) >= 3):
        out["cases"].append(h + ":" + variant)
    if payload["index"] < 6:
        out["sample"] = {"variant": variant, "program": ops[:6], "variant_program": ops1[:6]}
    return out
