"""C05 — force of infection follows the mixing, strain and infectiousness definition."""
import random
from common import *
from gen import P, DYADIC_POS

ID = "C05"
THEOREM_FILES = ["Summer.Props.C05", "Summer.Props.C01Rates", "Summer.Props.C05Source", "Summer.Props.C07Pipeline"]
TASK = "task"
RULE = ("programs forced to contain infection flows, with 0-3 mixing matrices (static / parameterised / time-varying), optional strain "
        "stratification, infectiousness adjustments, full and partial stratifications; one_step at states with positive category "
        "populations; plus fixed-step trajectories (and raw infection-flow outputs) of death-free models with importation and several mixing categories; non-trivial when the model has >= 2 mixing categories or >= 2 strains or an infectiousness adjustment")
TRUSTED = ["Spec.foi in lean/Summer/Spec/FOI.lean is the reading of the property's force-of-infection formula",
           "the strain stratification is named 'strain' (the backend looks the stratum up under that literal key)"]
ASSUMPTIONS = ["states have positive category populations (the property's quantifier)", "float rounding not modelled (1e-9 relative)"]

def payloads(tier, seed):
    n = 70 if tier == "quick" else 1500
    return [{"seed": seed, "index": i} for i in range(n)] + [{"seed": seed, "index": i, "mode": "traj"} for i in range(20 if tier == "quick" else 400)]


def traj_task(W, payload):
    """the force of infection ALONG A RUN (the category populations and infectious populations of the CURRENT state at every step): models
    without deaths whose population changes through importation / transitions only, several mixing categories; euler and rk4 trajectories
    and the raw infection-flow outputs compared with the model (fixed-step trajectories are prescribed: C07.euler_rows / rk4_rows)"""
    r = random.Random(f"C05t:{payload['seed']}:{payload['index']}")
    prog = Gen(r, Opts(force_infection=True, max_strats=2, force_strat=True, allow_computed=False, n_requests=0, allow_requests=True,
                       kinds=["transition", "infection", "infection", "import", "import"], allow_age=False, small_dt=True,
                       mixing_pair_bias=0.3, allow_post_flows=False)).program()
    names = sorted(set(op["name"] for op in prog["build"] if op["op"] == "flow" and op["kind"] in ("inf_freq", "inf_dens")))
    for i, nm in enumerate(names[:3]):
        prog["build"].append({"op": "request", "name": f"inf_raw_{i}", "kind": "flow", "flow": nm, "raw": True, "save": True})
    S = fresh_session(W)
    out = mk_out(prog)
    bump(out, "mode:trajectory")
    if not S.build(prog["build"]):
        bump(out, "build_rejected")
        return out
    d = S.dump()
    ncat = len(d["mixing_cats"]) if d else 1
    bump(out, f"traj_categories:{ncat}")
    h = prog_hash(prog["build"])
    for solver in ("euler", "rk4"):
        before = len(S.log)
        py, ln = S.run(prog["params"], solver, tol=1e-9, stages=("S7", "S8"))
        out["evals"] += 1
        if py.get("ok") and ncat >= 2:
            out["cases"].append(h + ":traj:" + solver)
        tag_diffs(out, S, before, "c05", payload, prog, ("S7", "S8"))
    return out

def task(W, payload):
    if payload.get("mode") == "traj":
        return traj_task(W, payload)
    r = random.Random(f"C05:{payload['seed']}:{payload['index']}")
    opts = Opts(force_infection=True, max_strats=3, force_strat=True, allow_requests=False, allow_computed=False,
                kinds=["transition", "death", "infection", "infection", "import"])
    if payload["index"] % 3 == 2:
        # several stratifications that use the same stratum labels (yes / no under different names), each adjusting infectiousness
        opts.shared_labels_bias = 0.8; opts.inf_adjust_bias = 0.95; opts.allow_age = False; opts.allow_strain = False
    prog = Gen(r, opts).program()
    # every second program: the first mixing matrix is supplied as ONE array-valued parameter (the usual way a contact matrix is passed in);
    # the Lean model reads its entries as scalar parameters, the interpreter assembles the array
    arr = None
    if payload["index"] % 2 == 1:
        for k_, op in enumerate(prog["build"]):
            if op["op"] == "stratify" and op.get("mixing"):
                arr = f"mm{k_}"
                n_ = len(op["mixing"])
                for i in range(n_):
                    for j in range(n_):
                        nm = f"{arr}_{i}_{j}"
                        prog["params"][nm] = q(r.choice(DYADIC_POS))
                        op["mixing"][i][j] = P(nm)
                op["mixing_array_param"] = arr
                break
    S = fresh_session(W)
    out = mk_out(prog)
    if arr: bump(out, "mixing:array_parameter")
    if not S.build(prog["build"]):
        bump(out, "build_rejected")
        return out
    d = S.dump()
    ncat = len(d["mixing_cats"]) if d else 1
    nstrain = len(d["strains"]) if d else 1
    nontrivial = ncat >= 2 or nstrain >= 2 or prog["meta"]["feat"].get("inf_adj", 0) > 0
    bump(out, f"categories:{ncat}"); bump(out, f"strains:{nstrain}")
    h = prog_hash(prog["build"])
    for mode, t, x in sample_states(r, prog, ("interior", "interior", "boundary")):
        before = len(S.log)
        py, ln = S.one_step(prog["params"], t, x, stages=("S3", "S4"))
        out["evals"] += 1
        if py.get("ok") and nontrivial and py.get("mults"):
            out["cases"].append(h + ":" + t + ":" + ",".join(x))
        tag_diffs(out, S, before, "c05", payload, prog, ("S3", "S4"))
    # the SAME runner evaluated at other parameter values (a runner is built once and called with many parameter sets): every parameter,
    # the entries of the mixing matrices included, takes another value
    if prog["params"]:
        params2 = {k: q(Fr(v) * r.choice([Fr(1, 2), Fr(3, 2), Fr(3, 4), Fr(5, 4)])) for k, v in prog["params"].items()}
        for mode, t, x in sample_states(r, prog, ("interior",)):
            before = len(S.log)
            py, ln = S.one_step(params2, t, x, stages=("S3", "S4"))
            out["evals"] += 1
            bump(out, "same_runner_other_parameters")
            if py.get("ok") and nontrivial and py.get("mults"):
                out["cases"].append(h + ":p2:" + t + ":" + ",".join(x))
            tag_diffs(out, S, before, "c05", payload, prog, ("S3", "S4"))
    if payload["index"] == 0:
        out["sample"] = {"program": prog["build"], "params": prog["params"]}
    return out
