"""C06 — initial population = declared distribution pushed through splits and rebalances."""
import random
import numpy as np
from common import *

ID = "C06"
THEOREM_FILES = ["Summer.Props.C06"]
TASK = "task"
RULE = ("programs with literal / parameterised / expression-valued distributions and splits, full and partial stratifications, "
        "population-split adjustments after the last stratification, optional whole-population array; observables "
        "get_initial_population, one_step().initial_population and row 0 of the outputs of each solver; non-trivial when there is "
        ">= 1 stratification")
TRUSTED = ["Spec.initPop in lean/Summer/Spec/InitPop.lean is the reading of the property"]
ASSUMPTIONS = ["population-split adjustments are requested after the last stratification (the property's quantifier)"]

def payloads(tier, seed):
    n = 70 if tier == "quick" else 1500
    return [{"seed": seed, "index": i} for i in range(n)]

def task(W, payload):
    r = random.Random(f"C06:{payload['seed']}:{payload['index']}")
    prog = Gen(r, Opts(max_strats=3, allow_array_pop=True, allow_requests=False, allow_computed=False, max_flows=3,
                       allow_adjust=False, allow_mixing=False, allow_inf_adjust=False)).program()
    S = fresh_session(W)
    out = mk_out(prog)
    if not S.build(prog["build"]):
        bump(out, "build_rejected")
        return out
    h = prog_hash(prog["build"])
    before = len(S.log)
    py, ln = S.init_pop(prog["params"])
    out["evals"] += 1
    tag_diffs(out, S, before, "c06", payload, prog, ("S6",))
    if py.get("ok"):
        if prog["meta"]["strats"]:
            out["cases"].append(h)
        x0 = np.array(py["x0"])
        # oracle on the real code alone: totals per original compartment are preserved when every literal split sums to one
        has_array = any(op["op"] == "init_pop_array" for op in prog["build"])
        if not has_array:
            dist_op = [op for op in prog["build"] if op["op"] == "init_pop"][0]
            # evaluate the declared distribution with the Lean-independent tiny evaluator
            from fractions import Fraction
            def ev(e):
                if "c" in e: return Fraction(e["c"])
                if "p" in e: return Fraction(prog["params"][e["p"]])
                for k, f in (("+", lambda a, b: a + b), ("-", lambda a, b: a - b), ("*", lambda a, b: a * b), ("/", lambda a, b: a / b)):
                    if k in e: return f(ev(e[k][0]), ev(e[k][1]))
                raise ValueError(e)
            declared = {k: float(ev(e)) for k, e in dist_op["dist"]}
            comps = prog["meta"]["comps"]
            for name in set(c[0] for c in comps):
                tot = sum(x0[i] for i, c in enumerate(comps) if c[0] == name)
                want = declared.get(name, 0.0)
                if not close(tot, want, max(1.0, abs(want)), 1e-9):
                    fail(out, "total of original compartment not preserved", "c06", payload, compartment=name, declared=want, got=float(tot),
                         program=prog["build"], params=prog["params"])
        # row 0 of the outputs equals the initial population for every solver
        for solver in ("euler", "rk4", "odeint"):
            rr = S.I.apply({"op": "run", "params": [[k, v] for k, v in prog["params"].items()], "solver": solver})
            out["evals"] += 1
            if rr["ok"] and not vec_close(rr["outputs"][0], py["x0"], 1e-12):
                fail(out, f"row 0 of outputs differs from the initial population ({solver})", "c06", payload, row0=rr["outputs"][0], x0=py["x0"],
                     program=prog["build"], params=prog["params"])
    if payload["index"] == 0:
        out["sample"] = {"program": prog["build"], "params": prog["params"], "x0": py.get("x0")}
    return out
