"""C06 — initial population = declared distribution pushed through splits and rebalances."""
import random
import numpy as np
from common import *

ID = "C06"
THEOREM_FILES = ["Summer.Props.C06", "Summer.Props.C08Source", "Summer.Props.C06Source", "Summer.Props.C17Strat", "Summer.Props.C17Reach", "Summer.Props.C17GlueReq"]
TASK = "task"
RULE = ("programs with literal / parameterised / expression-valued distributions and splits, full and partial stratifications, "
        "population-split adjustments after the last stratification (every second program: a sequence A, B, A' where A' repeats A's stratification and filter "
        "with other proportions and B overlaps A), optional whole-population array; observables "
        "get_initial_population, one_step().initial_population and row 0 of the outputs of each solver; plus pairs of models sharing one Stratification "
        "object with different earlier layouts; non-trivial when there is "
        ">= 1 stratification")
TRUSTED = ["Spec.initPop in lean/Summer/Spec/InitPop.lean is the reading of the property"]
ASSUMPTIONS = ["population-split adjustments are requested after the last stratification (the property's quantifier)"]

def payloads(tier, seed):
    n = 70 if tier == "quick" else 1500
    return [{"seed": seed, "index": i} for i in range(n)] + [{"seed": seed, "index": i, "mode": "shared"} for i in range(n // 4)] \
        + [{"seed": seed, "index": i, "mode": "twins"} for i in range(n // 4)]

def shared_task(W, payload):
    """two models built in one interpreter that SHARE their last Stratification object but differ in the layout before it
    (scenario models): each model's initial population, evaluated with a freshly built runner, must equal the model's value"""
    import interp as interp_mod
    r = random.Random(f"C06s:{payload['seed']}:{payload['index']}")
    prog = Gen(r, Opts(max_strats=2, force_strat=True, allow_requests=False, allow_computed=False, max_flows=3, allow_post_flows=False,
                       allow_adjust=False, allow_mixing=False, allow_inf_adjust=False, allow_rebalance=False, allow_age=False)).program()
    out = mk_out(prog)
    bump(out, "mode:shared_stratification")
    ops = prog["build"]
    si = [i for i, op in enumerate(ops) if op["op"] == "stratify"]
    if not si:
        return out
    last = si[-1]
    key = f"shared:{payload['seed']}:{payload['index']}"
    opsA = [dict(op) for op in ops]; opsA[last]["share"] = key
    names = ops[0]["comps"]
    extra = {"op": "stratify", "kind": "plain", "name": "xtra", "strata": ["k1", "k2"], "comps": [r.choice(names)],
             "split": [["k1", {"c": "1/4"}], ["k2", {"c": "3/4"}]]}
    opsB = opsA[:last] + [extra] + opsA[last:]
    interp_mod.SHARED_STRATS.pop(key, None)
    try:
        SA = fresh_session(W); okA = SA.build([{k: v for k, v in op.items() if k != "share"} for op in opsA][:0]) or True
        # build on the implementation with sharing, on the model without (the model has no object identity)
        IA = interp_mod.Interp(); IB = interp_mod.Interp()
        for op in opsA:
            if not IA.apply(op)["ok"]: return out
        for op in opsB:
            if not IB.apply(op)["ok"]: return out
        params = [[k, v] for k, v in prog["params"].items()]
        # order matters on the unchanged tree: finalising B re-registers the graph keys of the shared object, after which A can no
        # longer be evaluated with a fresh runner (documented in DESIGN 8.3 as outside the property's quantifier) - so A first, then B
        for label, I, opsX in (("A", IA, opsA), ("B", IB, opsB)):
            I.runner = None
            py = I.apply({"op": "init_pop_eval", "params": params})
            L = W["rat"]
            okL = True
            for op in opsX:
                if not L.send({k: v for k, v in op.items() if k != "share"})["ok"]:
                    okL = False; break
            ln = L.send({"op": "init_pop_eval", "params": params}) if okL else {"ok": False}
            out["evals"] += 1
            if py["ok"] != ln["ok"]:
                out["diffs"].append({"stage": "S6", "what": f"initial_population of model {label}: raise / no-raise (Stratification object shared between two models)",
                                     "prescribed": True, "impl": py.get("err", "ok"), "model": ln.get("err", "ok"), "program_A": opsA, "program_B": opsB,
                                     "task": {"module": "c06", "fn": "task", "payload": payload}})
            if py["ok"] and ln["ok"]:
                out["cases"].append(prog_hash(opsX) + ":" + label)
                if not vec_close(py["x0"], ln["x0"], 1e-12):
                    out["diffs"].append({"stage": "S6", "what": f"initial_population of model {label} (Stratification object shared between two models)",
                                         "prescribed": True, "impl": py["x0"], "model": [float(v) for v in ln["x0"]], "program_A": opsA, "program_B": opsB,
                                         "task": {"module": "c06", "fn": "task", "payload": payload}})
    finally:
        interp_mod.SHARED_STRATS.pop(key, None)
    if payload["index"] == 0:
        out["sample"] = {"shared": True, "program_A": opsA, "extra_in_B": extra}
    return out


def twins_task(W, payload):
    """a baseline and a scenario model in ONE process that share nothing but use the same literal numbers in different roles (the split
    proportions and the initial distribution of the scenario are those of the baseline in another order): the baseline's initial population,
    evaluated with a freshly built runner BEFORE and AFTER the scenario has been built and evaluated, and the scenario's, must each be the
    model's value"""
    import interp as interp_mod
    r = random.Random(f"C06t:{payload['seed']}:{payload['index']}")
    prog = Gen(r, Opts(max_strats=2, force_strat=True, allow_requests=False, allow_computed=False, max_flows=3, allow_post_flows=False,
                       allow_adjust=False, allow_mixing=False, allow_inf_adjust=False, rebalance_prob=0.5, split_bias=0.95, allow_param_split=False)).program()
    out = mk_out(prog)
    bump(out, "mode:baseline_and_scenario_in_one_process")
    opsA = prog["build"]
    opsB = copy.deepcopy(opsA)
    changed = False
    for op in opsB:
        if op["op"] == "stratify" and op.get("split") and len(op["split"]) >= 2 and all("c" in kv[1] for kv in op["split"]):
            vals = [kv[1] for kv in op["split"]]
            vals = vals[1:] + vals[:1]
            if vals != [kv[1] for kv in op["split"]]: changed = True
            op["split"] = [[kv[0], v] for kv, v in zip(op["split"], vals)]
        if op["op"] == "init_pop" and len(op.get("dist") or []) >= 2:
            vals = [kv[1] for kv in op["dist"]]
            vals = vals[1:] + vals[:1]
            if vals != [kv[1] for kv in op["dist"]]: changed = True
            op["dist"] = [[kv[0], v] for kv, v in zip(op["dist"], vals)]
        if op["op"] == "adjust_split" and len(op.get("props") or []) >= 2 and all("c" in kv[1] for kv in op["props"]):
            vals = [kv[1] for kv in op["props"]]
            vals = vals[1:] + vals[:1]
            op["props"] = [[kv[0], v] for kv, v in zip(op["props"], vals)]
    if not changed:
        bump(out, "twins:identical"); return out
    IA = interp_mod.Interp(); IB = interp_mod.Interp()
    for op in opsA:
        if not IA.apply(op)["ok"]:
            bump(out, "build_rejected"); return out
    params = [[k, v] for k, v in prog["params"].items()]
    L = W["rat"]
    def model_value(opsX):
        for op in opsX:
            if not L.send(op)["ok"]: return {"ok": False}
        return L.send({"op": "init_pop_eval", "params": params})
    lnA = model_value(opsA)
    def observe(label, I, ln, opsX):
        I.runner = None
        py = I.apply({"op": "init_pop_eval", "params": params})
        out["evals"] += 1
        if py["ok"] != ln["ok"]:
            out["diffs"].append({"stage": "S6", "what": f"initial_population ({label}): raise / no-raise", "prescribed": True, "impl": py.get("err", "ok"),
                                 "model": ln.get("err", "ok"), "program_A": opsA, "program_B": opsB, "task": {"module": "c06", "fn": "task", "payload": payload}})
        elif py["ok"]:
            out["cases"].append(prog_hash(opsX) + ":" + label)
            if not vec_close(py["x0"], ln["x0"], 1e-12):
                out["diffs"].append({"stage": "S6", "what": f"initial_population ({label})", "prescribed": True, "impl": py["x0"],
                                     "model": [float(v) for v in ln["x0"]], "program_A": opsA, "program_B": opsB,
                                     "task": {"module": "c06", "fn": "task", "payload": payload}})
    observe("baseline, before the scenario exists", IA, lnA, opsA)
    okB = all(IB.apply(op)["ok"] for op in opsB)
    if okB:
        lnB = model_value(opsB)
        observe("scenario", IB, lnB, opsB)
    observe("baseline, after the scenario was built and evaluated", IA, lnA, opsA)
    if payload["index"] == 0:
        out["sample"] = {"twins": True, "program_A": opsA, "program_B": opsB}
    return out


def task(W, payload):
    if payload.get("mode") == "shared":
        return shared_task(W, payload)
    if payload.get("mode") == "twins":
        return twins_task(W, payload)
    r = random.Random(f"C06:{payload['seed']}:{payload['index']}")
    prog = Gen(r, Opts(max_strats=3, allow_array_pop=True, allow_requests=False, allow_computed=False, max_flows=3,
                       allow_adjust=False, allow_mixing=False, allow_inf_adjust=False, rebalance_prob=0.8,
                       rebalance_repeat_bias=(0.6 if payload["index"] % 2 else 0.0), shuffle_split_bias=0.5, inexact_split_bias=0.3, shuffle_strat_comps_bias=0.4, force_strat=bool(payload["index"] % 2))).program()
    S = fresh_session(W)
    out = mk_out(prog)
    if not S.build(prog["build"]):
        bump(out, "build_rejected")
        return out
    h = prog_hash(prog["build"])
    before = len(S.log)
    py, ln = S.init_pop(prog["params"])
    out["evals"] += 1
    tag_diffs(out, S, before, "c06", payload, prog, ("S6",))
    if py.get("ok"):
        if prog["meta"]["strats"]:
            out["cases"].append(h)
        x0 = np.array(py["x0"])
        # oracle on the real code alone: totals per original compartment are preserved when every literal split sums to one
        has_array = any(op["op"] == "init_pop_array" for op in prog["build"])
        inexact = any(prog["meta"]["feat"].get(k) for k in ("split:sum_within_tolerance", "split:two_independent_params"))
        if not has_array and not inexact:
            dist_op = [op for op in prog["build"] if op["op"] == "init_pop"][0]
            # evaluate the declared distribution with the Lean-independent tiny evaluator
            from fractions import Fraction
            def ev(e):
                if "c" in e: return Fraction(e["c"])
                if "p" in e: return Fraction(prog["params"][e["p"]])
                for k, f in (("+", lambda a, b: a + b), ("-", lambda a, b: a - b), ("*", lambda a, b: a * b), ("/", lambda a, b: a / b)):
                    if k in e: return f(ev(e[k][0]), ev(e[k][1]))
                raise ValueError(e)
            declared = {k: float(ev(e)) for k, e in dist_op["dist"]}
            comps = prog["meta"]["comps"]
            for name in set(c[0] for c in comps):
                tot = sum(x0[i] for i, c in enumerate(comps) if c[0] == name)
                want = declared.get(name, 0.0)
                if not close(tot, want, max(1.0, abs(want)), 1e-9):
                    fail(out, "total of original compartment not preserved", "c06", payload, compartment=name, declared=want, got=float(tot),
                         program=prog["build"], params=prog["params"])
        # row 0 of the outputs equals the initial population for every solver
        for solver in ("euler", "rk4", "odeint"):
            rr = S.I.apply({"op": "run", "params": [[k, v] for k, v in prog["params"].items()], "solver": solver})
            out["evals"] += 1
            if rr["ok"] and not vec_close(rr["outputs"][0], py["x0"], 1e-12):
                fail(out, f"row 0 of outputs differs from the initial population ({solver})", "c06", payload, row0=rr["outputs"][0], x0=py["x0"],
                     program=prog["build"], params=prog["params"])
    # the public accessor after a run whose runner has only SOME parameters run-time-supplied: `get_initial_population(p1)` must be the
    # population at p1, not at the values an earlier run froze
    if py.get("ok") and prog["params"] and payload["index"] % 2 == 0 and not any(op["op"] == "init_pop_array" for op in prog["build"]):
        keys = sorted(prog["params"])
        p0 = {k: float(Fr(v)) for k, v in prog["params"].items()}
        p1 = {k: q(Fr(v) * Fr(3, 2)) for k, v in prog["params"].items()}
        dyn = [k for k in keys if r.random() < 0.4]
        try:
            S.I.model.run(parameters=dict(p0), solver="euler", dyn_params=list(dyn), rebuild=True)
            ser = S.I.model.get_initial_population({k: float(Fr(v)) for k, v in p1.items()})
            got = [float(v) for v in ser.values]
            ln1 = S.L.send({"op": "init_pop_eval", "params": [[k, v] for k, v in p1.items()]})
            out["evals"] += 1
            if ln1.get("ok"):
                out["cases"].append(h + ":accessor_after_partial_runner")
                if not vec_close(got, [float(v) for v in ln1["x0"]], 1e-12):
                    out["diffs"].append({"stage": "S6", "what": "get_initial_population(p1) after model.run(p0, dyn_params=subset)", "prescribed": True,
                                         "impl": got, "model": [float(v) for v in ln1["x0"]], "dyn_params": dyn, "p1": p1,
                                         "task": {"module": "c06", "fn": "task", "payload": payload}, "program": prog["build"]})
        except BaseException as e:
            bump(out, "accessor_sequence_error:" + type(e).__name__)
    if payload["index"] == 0:
        out["sample"] = {"program": prog["build"], "params": prog["params"], "x0": py.get("x0")}
    return out
