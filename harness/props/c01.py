"""C01 — compartment rates follow the documented per-flow rate laws.
Theorems: Summer.Props.C01 (weight chain, weight delivery, per-kind flow-rate law, signed accumulation).
Correspondence: S2/S4/S5 on one_step(p, t, x) — the values the Lean model computes are, by those theorems, the values the
property prescribes, so a disagreement on flow_rates / comp_rates is itself a failing input."""
import random
from fractions import Fraction as Fr
from gen import Gen, Opts, gen_state, fix_categories, q
from corr import Session, prog_hash
from tasks import fresh_session

ID = "C01"
THEOREM_FILES = ["Summer.Props.C01", "Summer.Props.C01Step", "Summer.Props.C01Source", "Summer.Props.C01Rates", "Summer.Props.C04Weights", "Summer.Props.C07Pipeline"]
TASK = "task"
LEVEL = "proof"
RULE = ("(a) programs from harness/gen.py (all nine flow kinds, plain/age/strain stratifications, adjustments, mixing, time/state/parameter "
        "dependent weights); each is evaluated with one_step at interior, boundary and slightly negative states at grid and off-grid "
        "times; a case is distinct by program hash + state, non-trivial when the model has >= 2 flows and the build succeeded; "
        "(b) every fourth program: defaults set on the model, three euler runs with different partial overrides, "
        "(outputs[1]-outputs[0])/timestep compared with the compartment rates at (times[0], outputs[0]) under defaults + overrides")
TRUSTED = ["Spec.flowRate / Spec.weight in lean/Summer/Spec/Rates.lean are the reading of the property's rate laws"]
ASSUMPTIONS = ["floating-point rounding is not modelled: implementation values are compared with exact rationals at 1e-9 relative"]

def payloads(tier, seed):
    n = 140 if tier == "quick" else 2400
    return [{"seed": seed, "index": i} for i in range(n)]

def search_payloads(tier, seed, diffs):
    return [{"seed": seed + 7919, "index": i} for i in range(300)]

def task(W, payload):
    r = random.Random(f"C01:{payload['seed']}:{payload['index']}")
    # every second program is forced to carry 2-3 stratifications (adjustment chains across stratifications)
    prog = Gen(r, Opts(max_strats=3, force_strat=True) if payload["index"] % 2 else Opts()).program()
    S = fresh_session(W)
    out = {"evals": 0, "cases": [], "fails": [], "diffs": [], "feat": dict(prog["meta"]["feat"])}
    if not S.build(prog["build"]):
        out["feat"]["build_rejected_by_both" if S.both_rejected else "build_disagreement"] = 1
        # build disagreements belong to C04/C17; not reported here
        return out
    params = prog["params"]
    n = prog["meta"]["n_comps"]
    t0 = Fr(prog["meta"]["t0"]); dt = Fr(prog["meta"]["dt"])
    h = prog_hash(prog["build"])
    for mode in ("interior", "boundary", "negative"):
        x = fix_categories(r, gen_state(r, n, mode), prog["meta"]["comps"], prog["meta"]["mixing_strats"])
        t = t0 + Fr(r.randint(0, 4 * prog["meta"]["nsteps"]), 4) * dt
        before = len(S.log)
        py, ln = S.one_step(params, q(t), [q(v) for v in x], stages=("S2", "S4", "S5"))
        out["evals"] += 1
        out["feat"]["state:" + mode] = out["feat"].get("state:" + mode, 0) + 1
        if py.get("ok") and len(py.get("flow_rates", [])) >= 2:
            out["cases"].append(h + ":" + mode)
        for d in S.log[before:]:
            d = dict(d)
            d["prescribed"] = d["stage"] in ("S2", "S4", "S5")
            d["task"] = {"module": "c01", "fn": "task", "payload": payload}
            d["program"] = prog["build"]
            out["diffs"].append(d)
    # a state given as whole numbers of people in an INTEGER array (what a user holding counts passes to one_step): same rate laws
    x = fix_categories(r, gen_state(r, n, "interior"), prog["meta"]["comps"], prog["meta"]["mixing_strats"])
    xi = [q(Fr(int(Fr(v)) + 1)) for v in x]
    t = t0 + Fr(r.randint(0, 4 * prog["meta"]["nsteps"]), 4) * dt
    before = len(S.log)
    py, ln = S.one_step(params, q(t), xi, stages=("S4", "S5"), extra={"x_dtype": "int"})
    out["evals"] += 1
    out["feat"]["state:integer_array"] = out["feat"].get("state:integer_array", 0) + 1
    if py.get("ok") and len(py.get("flow_rates", [])) >= 2:
        out["cases"].append(h + ":int")
    for d in S.log[before:]:
        d = dict(d)
        d["prescribed"] = d["stage"] in ("S2", "S4", "S5")
        d["task"] = {"module": "c01", "fn": "task", "payload": payload}
        d["program"] = prog["build"]
        out["diffs"].append(d)
    if payload["index"] % 4 == 3:
        euler_defaults(S, r, prog, params, payload, out)
    if payload["index"] == 0:
        out["sample"] = {"program": prog["build"][:6], "params": params, "n_comps": n}
    return out


def euler_defaults(S, r, prog, params, payload, out):
    """second observation point of the property: `model.run(solver='euler')`, `(outputs[1] - outputs[0]) / timestep` must be the
    compartment rates at (times[0], outputs[0]) under the EFFECTIVE parameter set, i.e. the model's defaults overridden by what
    this run supplies — also when an earlier run on the same model supplied other values."""
    import numpy as np
    I = S.I
    keys = sorted(params)
    if not keys:
        return
    base = {k: float(Fr(v)) for k, v in params.items()}
    try:
        I.model.set_default_parameters(dict(base))
    except BaseException:
        return
    history = []
    for step in range(3):
        sub = [k for k in keys if r.random() < 0.5] if step < 2 else [k for k in keys if r.random() < 0.25]
        if step == 0 and not sub:
            sub = [keys[0]]
        ov = {k: base[k] * r.choice([0.5, 1.5, 2.0]) for k in sub}
        history.append(ov)
        try:
            I.model.run(parameters=dict(ov), solver="euler")
            outs = np.asarray(I.model.outputs)
            times = np.asarray(I.model.times, dtype=float)
        except BaseException as e:
            # an override can make the model unrunnable for reasons of its own (e.g. a split that no longer sums to one): not a rate-law question
            out["feat"]["euler_defaults_run_raised"] = out["feat"].get("euler_defaults_run_raised", 0) + 1
            return
        eff = dict(base); eff.update(ov)
        rr = I.apply({"op": "one_step", "params": [[k, float(v)] for k, v in eff.items()], "t": float(times[0]), "x": [float(v) for v in outs[0]]})
        out["evals"] += 1
        if not rr.get("ok") or len(times) < 2:
            return
        h = float(times[1] - times[0])
        got = (outs[1] - outs[0]) / h
        want = np.asarray(rr["comp_rates"], dtype=float)
        if not (np.all(np.isfinite(got)) and np.all(np.isfinite(want))):
            return
        tol = 1e-9 * max(1.0, float(np.max(np.abs(outs[0]))) / abs(h), float(np.max(np.abs(want))))
        if float(np.max(np.abs(got - want))) > tol:
            out["fails"].append({"what": "(outputs[1]-outputs[0])/timestep of an euler run differs from the compartment rates under defaults + supplied parameters",
                                 "run_number": step + 1, "history": history, "defaults": base, "euler_rate": got.tolist(), "comp_rates": want.tolist(),
                                 "program": prog["build"], "signature": None, "task": {"module": "c01", "fn": "task", "payload": payload}})
            return
        out["cases"].append(prog_hash(prog["build"]) + ":euler_defaults:" + str(step))
        out["feat"]["euler_defaults_runs"] = out["feat"].get("euler_defaults_runs", 0) + 1
