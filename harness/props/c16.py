"""C16 — the time-function library computes the interpolants it documents."""
import random, itertools, math
import numpy as np
from common import *

ID = "C16"
THEOREM_FILES = ["Summer.Props.C16", "Summer.Props.C16Source"]
TASK = "task"
RULE = ("(a) exhaustive small lattice [a test, labelled as a test; the theorems cover all lengths]: all strictly increasing point sets of length "
        "1..4 (quick) / 1..6 (thorough) from a 9-point lattice, x at every lattice point and midpoint, below and above; piecewise, linear "
        "and sigmoidal functions through get_time_callable (scalar and vectorised) and as flow rates inside a model; points given as arrays, "
        "lists with parameters, and graph objects; three x-axis arguments; (b) rolling helpers three-way: code vs model vs pandas.Series; "
        "distinct by (function, points, x), non-trivial when x lies within one lattice step of a breakpoint")
TRUSTED = ["pandas (as the oracle for the rolling helpers)"]
ASSUMPTIONS = ["sigmoidal values are compared in floating point (exp); monotonicity / bounds / limit are theorems over the reals"]

LATTICE = [Fr(i, 2) for i in range(-2, 7)]   # -1 .. 3 in halves

def payloads(tier, seed):
    maxlen = 4 if tier == "quick" else 6
    sets = []
    for n in range(1, maxlen + 1):
        for pts in itertools.combinations(range(len(LATTICE)), n):
            sets.append(list(pts))
    r = random.Random(seed)
    r.shuffle(sets)
    if tier == "quick":
        sets = sets[:120]
    chunks = [sets[i::14] for i in range(14)]
    return [{"seed": seed, "index": i, "sets": c, "rolling": i < 4} for i, c in enumerate(chunks) if c]

def task(W, payload):
    import jax.numpy as jnp
    from summer2.functions import time as stf, derived as sder
    from summer2.parameters import Parameter, Time, Function
    from computegraph.types import Data
    import pandas as pd
    r = random.Random(f"C16:{payload['seed']}:{payload['index']}")
    out = mk_out()
    L = W["rat"]; LF = W["float"]
    xs_eval = sorted(set([p for p in LATTICE] + [p + Fr(1, 4) for p in LATTICE] + [LATTICE[0] - 1, LATTICE[-1] + 1]))
    for idxs in payload["sets"]:
        pts = [LATTICE[i] for i in idxs]
        n = len(pts)
        ys = [Fr(r.randint(-8, 8), 2) for _ in range(n + 1)]
        style = r.choice(["array", "list_params", "list_mixed", "list_numbers", "graphobj"])
        mask_seed = r.random()
        params = {}
        def mk_points(vals, prefix):
            if style == "array":
                return np.array([float(v) for v in vals])
            if style == "list_params":
                lst = []
                for i, v in enumerate(vals):
                    if i % 2 == 0:
                        params[f"{prefix}{i}"] = float(v); lst.append(Parameter(f"{prefix}{i}"))
                    else:
                        lst.append(float(v))
                return lst
            if style in ("list_mixed", "list_numbers"):
                # Python ints where the value is integral, floats otherwise; parameters at random positions (none for list_numbers)
                rr = random.Random(f"{mask_seed}:{prefix}")
                lst = []
                for i, v in enumerate(vals):
                    if style == "list_mixed" and rr.random() < 0.5:
                        params[f"{prefix}{i}"] = float(v); lst.append(Parameter(f"{prefix}{i}"))
                    else:
                        lst.append(int(v) if v.denominator == 1 else float(v))
                return lst
            return Data(jnp.array([float(v) for v in vals]))
        bump(out, "points:" + style)
        axis_kind = r.choice(["time", "param", "scaled_time"])
        bump(out, "axis:" + axis_kind)
        if axis_kind == "time": axis, conv = Time, (lambda x: (x, {}))
        elif axis_kind == "param": axis, conv = Parameter("xx"), (lambda x: (Fr(0), {"xx": float(x)}))
        else: axis, conv = Time * 2.0, (lambda x: (x / 2, {}))
        fns = {}
        fns["pw"] = (stf.get_piecewise_function(mk_points(pts, "b"), mk_points(ys, "v"), x_axis=axis), pts, ys)
        if n >= 2:
            fns["lin"] = (stf.get_linear_interpolation_function(mk_points(pts, "x"), mk_points(ys[:n], "y"), x_axis=axis), pts, ys[:n])
            curv = r.choice([Fr(16), Fr(4), Fr(1, 2)])
            fns["sig"] = (stf.get_sigmoidal_interpolation_function(mk_points(pts, "sx"), mk_points(ys[:n], "sy"), x_axis=axis, curvature=float(curv)), pts, ys[:n])
        for name, (f, a, b) in fns.items():
            call = stf.get_time_callable(f, jit_compile=False)
            for x in xs_eval:
                tt, extra = conv(x)
                p = dict(params); p.update(extra)
                try:
                    got = float(np.asarray(call(float(tt), p)))
                except BaseException as e:
                    fail(out, f"{name} raised at x={x}", "c16", payload, fn=name, points=[q(v) for v in a], x=q(x), err=str(e)[:200]); continue
                op = {"op": "timefn", "fn": name, "x": q(x), "a": [q(v) for v in a], "b": [q(v) for v in b]}
                if name == "sig":
                    op["c"] = q(curv); ln = LF.send(op)
                else:
                    ln = L.send(op)
                out["evals"] += 1
                near = any(abs(x - p_) <= Fr(1, 2) for p_ in a)
                if near: out["cases"].append(f"{name}:{idxs}:{x}")
                if not ln.get("ok"):
                    out["diffs"].append({"stage": "C16", "what": "model error", "op": op, "model": ln, "prescribed": False}); continue
                want = float(ln["v"])
                if not close(got, want, 1.0, 1e-9):
                    out["diffs"].append({"stage": "C16", "what": f"{name} value", "prescribed": True, "op": op, "impl": got, "model": want,
                                         "points_style": style, "axis": axis_kind, "task": {"module": "c16", "fn": "task", "payload": payload}})
            # vectorised evaluation equals scalar evaluation
            if axis_kind == "time":
                arr = jnp.array([float(x) for x in xs_eval])
                try:
                    vec = np.asarray(call(arr, params))
                    sca = np.array([float(np.asarray(call(float(x), params))) for x in xs_eval])
                    if not vec_close(list(vec), list(sca), 1e-12):
                        fail(out, f"vectorised evaluation of {name} differs from scalar evaluation", "c16", payload, fn=name, points=[q(v) for v in a])
                except BaseException as e:
                    fail(out, f"vectorised evaluation of {name} raised", "c16", payload, err=str(e)[:200])
        # (i) the sigmoidal interpolant for a curvature close to 0 is the linear interpolant (Props/C16 `norm_sigmoid_limit`); the formula divides two
        # quantities of the size of the curvature, so the comparison allows 1e-6
        if n >= 2 and axis_kind == "time":
            for cv in (1e-6, 3e-7):
                f_ = stf.get_sigmoidal_interpolation_function(np.array([float(v) for v in pts]), np.array([float(v) for v in ys[:n]]), curvature=cv)
                call = stf.get_time_callable(f_, jit_compile=False)
                for x in xs_eval:
                    try:
                        got = float(np.asarray(call(float(x), {})))
                    except BaseException as e:
                        fail(out, f"sigmoidal interpolation with curvature {cv} raised", "c16", payload, x=q(x), err=str(e)[:200]); break
                    ln = L.send({"op": "timefn", "fn": "lin", "x": q(x), "a": [q(v) for v in pts], "b": [q(v) for v in ys[:n]]})
                    out["evals"] += 1
                    if ln.get("ok") and not (abs(got - float(ln["v"])) <= 1e-6 * max(1.0, abs(float(ln["v"])))):
                        fail(out, "the sigmoidal interpolant with a curvature close to 0 is not (close to) the linear interpolant", "c16", payload, curvature=cv, x=q(x),
                             got=got, linear=float(ln["v"]), points=[q(v) for v in pts], values=[q(v) for v in ys[:n]])
                        break
                out["cases"].append(f"sig_small_curvature:{idxs}:{cv}")
        # (ii) piecewise-constant function whose values are ROWS (a time-varying vector such as a row of contact rates): the row of the interval
        if axis_kind == "time":
            rows = [[float(v), 2 * float(v) + 1.0, -float(v)] for v in ys]
            f_ = stf.get_piecewise_function(np.array([float(v) for v in pts]), np.array(rows))
            call = stf.get_time_callable(f_, jit_compile=False)
            for x in xs_eval:
                try:
                    got = np.asarray(call(float(x), {}), dtype=float).reshape(-1)
                except BaseException as e:
                    fail(out, "piecewise function with row values raised", "c16", payload, x=q(x), err=str(e)[:200]); break
                ln = L.send({"op": "timefn", "fn": "pw", "x": q(x), "a": [q(v) for v in pts], "b": [q(v) for v in ys]})
                out["evals"] += 1
                if ln.get("ok"):
                    v_ = float(ln["v"]); want = [v_, 2 * v_ + 1.0, -v_]
                    if got.shape != (3,) or not vec_close(list(got), want, 1e-12):
                        fail(out, "piecewise function with row values does not return the row of the interval containing x", "c16", payload, x=q(x), got=got.tolist(), want=want,
                             points=[q(v) for v in pts])
                        break
            out["cases"].append(f"pw_rows:{idxs}")
    if payload.get("rolling"):
        # long point sets (40 and 70 points: "any length"), evaluated at every point and half-way between neighbours
        for n in (40, 70):
            pts = [Fr(i, 2) + (Fr(1, 8) if i % 3 == 0 else Fr(0)) for i in range(n)]
            ys = [Fr(r.randint(-8, 8), 2) for _ in range(n + 1)]
            xs = sorted(set(pts + [p_ + Fr(1, 4) for p_ in pts] + [pts[0] - 1, pts[-1] + 1]))
            fl = {"pw": (stf.get_piecewise_function(np.array([float(v) for v in pts]), np.array([float(v) for v in ys])), pts, ys),
                  "lin": (stf.get_linear_interpolation_function(np.array([float(v) for v in pts]), np.array([float(v) for v in ys[:n]])), pts, ys[:n])}
            for name, (f, a, b) in fl.items():
                call = stf.get_time_callable(f, jit_compile=False)
                vec = np.asarray(call(jnp.array([float(x) for x in xs]), {}))
                for x, gv in zip(xs, vec):
                    got = float(np.asarray(call(float(x), {})))
                    ln = L.send({"op": "timefn", "fn": name, "x": q(x), "a": [q(v) for v in a], "b": [q(v) for v in b]})
                    out["evals"] += 1
                    if ln.get("ok") and not close(got, float(ln["v"]), 1.0, 1e-9):
                        out["diffs"].append({"stage": "C16", "what": f"{name} value ({n} points)", "prescribed": True, "x": q(x), "impl": got, "model": float(ln["v"]),
                                             "n_points": n, "task": {"module": "c16", "fn": "task", "payload": payload}})
                    if not close(float(gv), got, 1.0, 1e-12):
                        fail(out, f"vectorised evaluation of {name} differs from scalar evaluation ({n} points)", "c16", payload, x=q(x), n_points=n)
                out["cases"].append(f"long:{name}:{n}")
        for _ in range(20):
            n = r.randint(1, 9)
            x = [Fr(r.randint(-20, 20), 4) for _ in range(n)]
            per = r.randint(1, n) if n > 0 else 1
            w = r.randint(1, n)
            xa = jnp.array([float(v) for v in x])
            gd = np.asarray(sder.get_rolling_diff(per)(xa))
            pdiff = pd.Series([float(v) for v in x]).diff(per).to_numpy()
            gs = np.asarray(sder.get_rolling_reduction(jnp.sum, w)(xa))
            psum = pd.Series([float(v) for v in x]).rolling(w).sum().to_numpy()
            ld = L.send({"op": "timefn", "fn": "rdiff", "x": "0", "a": [q(v) for v in x], "b": [], "n": per})["v"]
            ls = L.send({"op": "timefn", "fn": "rsum", "x": "0", "a": [q(v) for v in x], "b": [], "n": w})["v"]
            out["evals"] += 2
            out["cases"].append(f"roll:{n}:{per}:{w}:{x}")
            def same(a, b):
                return len(a) == len(b) and all((math.isnan(u) and (v is None or (isinstance(v, float) and math.isnan(v)))) or (v is not None and not (isinstance(v, float) and math.isnan(v)) and close(u, float(v), 1.0, 1e-12)) for u, v in zip(a, b))
            if not same(list(gd), list(pdiff)):
                fail(out, "get_rolling_diff differs from pandas.Series.diff", "c16", payload, x=[q(v) for v in x], periods=per, got=str(list(gd)), pandas=str(list(pdiff)))
            if not same(list(gs), list(psum)):
                fail(out, "get_rolling_reduction(sum) differs from pandas.Series.rolling(w).sum()", "c16", payload, x=[q(v) for v in x], window=w, got=str(list(gs)), pandas=str(list(psum)))
            if not same(list(gd), ld):
                out["diffs"].append({"stage": "C16", "what": "rolling_diff", "prescribed": True, "impl": str(list(gd)), "model": str(ld), "x": [q(v) for v in x], "n": per,
                                     "task": {"module": "c16", "fn": "task", "payload": payload}})
            if not same(list(gs), ls):
                out["diffs"].append({"stage": "C16", "what": "rolling_sum", "prescribed": True, "impl": str(list(gs)), "model": str(ls), "x": [q(v) for v in x], "n": w,
                                     "task": {"module": "c16", "fn": "task", "payload": payload}})
    if payload.get("rolling"):
        # other reductions, chained helpers (the difference helper's NaN head fed to a rolling window) and series spanning many orders of magnitude
        for _ in range(20):
            n = r.randint(2, 10)
            x = [float(Fr(r.randint(-20, 20), 4)) for _ in range(n)]
            z = r.random()
            if z < 0.3:
                x[0] = r.choice([4e16, -1e15, 3e12])          # a huge early value followed by small ones
            w = r.randint(1, n); per = r.randint(1, max(1, n - 1))
            xa = jnp.array(x)
            ser = pd.Series(x)
            def same2(a, b):
                a = np.asarray(a, dtype=float); b = np.asarray(b, dtype=float)
                return a.shape == b.shape and all((math.isnan(u) and math.isnan(v)) or (not math.isnan(u) and not math.isnan(v) and close(u, v, max(1.0, abs(v)), 1e-12)) for u, v in zip(a, b))
            for fname, jf, pf in (("sum", jnp.sum, lambda s_: s_.rolling(w).sum()), ("mean", jnp.mean, lambda s_: s_.rolling(w).mean()),
                                  ("max", jnp.max, lambda s_: s_.rolling(w).max()), ("min", jnp.min, lambda s_: s_.rolling(w).min())):
                # NOTE pandas' own rolling sum/mean use a running total and lose small addends after a huge one: the reference for those two is the
                # window-by-window definition (sum / mean of each window), which is what "rolling window" means
                if fname in ("sum", "mean"):
                    ref = np.array([np.nan] * (w - 1) + [(np.sum(x[i - w + 1:i + 1]) if fname == "sum" else np.mean(x[i - w + 1:i + 1])) for i in range(w - 1, n)])
                else:
                    ref = pf(ser).to_numpy()
                got = np.asarray(sder.get_rolling_reduction(jf, w)(xa))
                out["evals"] += 1
                if not same2(got, ref):
                    fail(out, f"get_rolling_reduction({fname}) differs from the rolling-window {fname}", "c16", payload, x=x, window=w, got=str(list(got)), want=str(list(ref)))
                # chained: rolling reduction of the difference series (NaN head): only windows that contain a NaN are NaN
                d = sder.get_rolling_diff(per)(xa)
                got2 = np.asarray(sder.get_rolling_reduction(jf, w)(d))
                dd = np.asarray(ser.diff(per).to_numpy(), dtype=float)
                ref2 = np.array([np.nan] * (w - 1) + [getattr(np, fname)(dd[i - w + 1:i + 1]) for i in range(w - 1, n)])
                out["evals"] += 1
                if not same2(got2, ref2):
                    fail(out, f"get_rolling_reduction({fname}) of get_rolling_diff differs from pandas diff().rolling().{fname}() (a NaN must only affect the windows that contain it)",
                         "c16", payload, x=x, window=w, periods=per, got=str(list(got2)), want=str(list(ref2)))
            out["cases"].append(f"roll2:{n}:{per}:{w}:{x}")
    if payload["index"] == 0:
        out["sample"] = {"point_sets": payload["sets"][:3], "lattice": [q(v) for v in LATTICE]}
    return out
