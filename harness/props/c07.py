"""C07 — every solver returns the solution of the model's ODE at the requested times."""
import random, math
import numpy as np
from common import *

ID = "C07"
THEOREM_FILES = ["Summer.Props.C07", "Summer.Props.C12Grid", "Summer.Props.C07Source", "Summer.Props.C07Convergence", "Summer.Props.C07Pipeline", "Summer.Props.C07EndToEnd"]
TASK = "task"
RULE = ("(a) generated programs with non-unit / non-integer start, end and timestep: euler and rk4 trajectories vs the model's classical "
        "recurrences (IEEE double, 1e-9), adaptive solver vs the model's Dormand-Prince (20*(atol+rtol*|y|)); (b) closed forms on the real code: "
        "linear decay chain and logistic (SI, frequency-dependent) with random rates, start times and steps: row 0 exactly the initial state, "
        "error ratio on halving the step from 1/8 to 1/16 >= 1.7 (euler) / >= 10 (rk4), adaptive within 50*(atol+rtol*|y|) for four tolerances on a coarse and a "
        "fine output grid, and the two grids agree at common times; (c) adaptive scenarios: output times 750-2000 time units apart against the closed form, and a short smooth "
        "importation pulse after a long period with an exactly zero right-hand side against a fine-step RK4 run; distinct by configuration, non-trivial always")
TRUSTED = ["closed-form solutions of the linear chain and the logistic equation (written in harness/props/c07.py)"]
ASSUMPTIONS = ["convergence order for non-linear fields and tolerance claims are executed, not proved (DESIGN C07: partial)",
               "explicit-step trajectories that blow up (stiff random models) are compared up to the blow-up only"]

def payloads(tier, seed):
    n = 40 if tier == "quick" else 800
    out = [{"seed": seed, "index": i, "mode": "corr"} for i in range(n)]
    m = 16 if tier == "quick" else 200
    out += [{"seed": seed, "index": i, "mode": "closed"} for i in range(m)]
    out += [{"seed": seed, "index": i, "mode": "adaptive_scenarios"} for i in range(9 if tier == "quick" else 120)]
    return out

def build(ops):
    from interp import Interp
    I = Interp()
    for op in ops:
        r = I.apply(op)
        if not r["ok"]:
            raise RuntimeError("closed-form model rejected: " + str(r))
    return I

def run(I, solver, **kw):
    op = {"op": "run", "params": [], "solver": solver}
    op.update(kw)
    r = I.apply(op)
    if not r["ok"]:
        raise RuntimeError("run failed: " + str(r.get("err")))
    return np.array(r["outputs"])

def adaptive_scenarios(W, payload):
    """the adaptive solver where its step-size control is under strain: (a) output times hundreds of time units apart (many internal steps
    per output, the default `max_step` is 1) against the closed form of a slow linear chain; (b) a model whose right-hand side is exactly
    zero for a long time and then receives a short smooth importation pulse (the error estimate is exactly 0 before the pulse) against a
    fine-step RK4 run of the same model"""
    r = random.Random(f"C07s:{payload['seed']}:{payload['index']}")
    out = mk_out()
    try:
        if payload["index"] % 3 == 2:
            # a run with the DEFAULT tolerances that follows, in the same process, a run of ANOTHER model for which the user asked for very
            # loose tolerances: the defaults are the documented ones (1.4e-4), whatever was requested before
            # (fast rates: with loose tolerances the solver would take its maximal step of 1 and be off by hundreds)
            a = r.choice([Fr(3), Fr(5, 2), Fr(7, 2)]); b = r.choice([Fr(1), Fr(3, 2)])
            def chain(t1, dt):
                return [{"op": "model", "t0": "0", "t1": str(t1), "dt": str(dt), "comps": ["A", "B", "C"], "inf": ["A"]},
                        {"op": "init_pop", "dist": [["A", {"c": "1000"}], ["B", {"c": "10"}]]},
                        {"op": "flow", "kind": "transition", "name": "ab", "param": {"c": q(a)}, "src": "A", "dst": "B"},
                        {"op": "flow", "kind": "transition", "name": "bc", "param": {"c": q(b)}, "src": "B", "dst": "C"}]
            bump(out, "scenario:defaults_after_a_loose_run")
            I0 = build(chain(10, 5))
            loose = r.choice(["1/2", "1/4"])
            run(I0, "odeint", rtol=loose, atol=loose)
            ops = chain(*r.choice([(4, 1), (4, 2), (6, 2)]))
            I_ = build(ops)
            o = run(I_, "odeint")
            out["evals"] += 2
            tt = np.array(I_.model.times, dtype=float)
            fa, fb = float(a), float(b)
            A = 1000 * np.exp(-fa * tt)
            B = 10 * np.exp(-fb * tt) + 1000 * fa / (fb - fa) * (np.exp(-fa * tt) - np.exp(-fb * tt))
            ex = np.stack([A, B, 1010 - A - B], axis=1)
            tv = 1.4e-4
            lim = 50 * (tv + tv * np.abs(ex))
            out["cases"].append(f"defaults_after:{a}:{b}:{loose}")
            if not np.all(np.isfinite(o)) or np.any(np.abs(o - ex) > lim):
                fail(out, "a run with default solver arguments, after a run of another model with loose tolerances, is not within the default tolerance of the exact solution",
                     "c07", payload, got=o.tolist(), exact=ex.tolist(), loose_tolerance_of_previous_run=loose, program=ops)
        elif payload["index"] % 3 == 0:
            a = r.choice([Fr(1, 500), Fr(1, 300), Fr(1, 1000)]); b = r.choice([Fr(1, 400), Fr(1, 800)])
            t1, dt = r.choice([(3000, 1000), (4000, 2000), (1500, 750)])
            ops = [{"op": "model", "t0": "0", "t1": str(t1), "dt": str(dt), "comps": ["A", "B", "C"], "inf": ["A"]},
                   {"op": "init_pop", "dist": [["A", {"c": "1000"}], ["B", {"c": "10"}]]},
                   {"op": "flow", "kind": "transition", "name": "ab", "param": {"c": q(a)}, "src": "A", "dst": "B"},
                   {"op": "flow", "kind": "transition", "name": "bc", "param": {"c": q(b)}, "src": "B", "dst": "C"}]
            bump(out, "scenario:long_output_intervals")
            I_ = build(ops)
            tol = r.choice([None, "7/500000"])
            kw = {} if tol is None else {"rtol": tol, "atol": tol}
            o = run(I_, "odeint", **kw)
            out["evals"] += 1
            tt = np.array(I_.model.times, dtype=float)
            fa, fb = float(a), float(b)
            A = 1000 * np.exp(-fa * tt)
            B = 10 * np.exp(-fb * tt) + 1000 * fa / (fb - fa) * (np.exp(-fa * tt) - np.exp(-fb * tt)) if abs(fa - fb) > 1e-12 else (10 + 1000 * fa * tt) * np.exp(-fa * tt)
            ex = np.stack([A, B, 1010 - A - B], axis=1)
            tv = 1.4e-4 if tol is None else float(Fr(tol))
            # thousands of steps per output: the global error may accumulate; 200 x the per-step tolerance is still far below the seeded defects (errors of tens)
            lim = 200 * (tv + tv * np.abs(ex))
            out["cases"].append(f"long:{a}:{b}:{t1}:{dt}:{tol}")
            if not np.all(np.isfinite(o)) or np.any(np.abs(o - ex) > lim):
                fail(out, "adaptive solver is far from the exact solution when the output times are hundreds of time units apart", "c07", payload,
                     got=o.tolist(), exact=ex.tolist(), tolerance=tol, program=ops)
        else:
            c = r.choice([55, 60, 70]); w = r.choice([4, 5, 8]); hgt = r.choice(["8", "5", "12"])
            pts_x = [{"c": "0"}, {"c": str(c - w)}, {"c": str(c)}, {"c": str(c + w)}, {"c": "120"}]
            pts_y = [{"c": "0"}, {"c": "0"}, {"c": hgt}, {"c": "0"}, {"c": "0"}]
            ops = [{"op": "model", "t0": "0", "t1": "120", "dt": r.choice(["120", "60", "40"]), "comps": ["P", "Q"], "inf": ["P"]},
                   {"op": "init_pop", "dist": [["P", {"c": "0"}], ["Q", {"c": "0"}]]},
                   {"op": "flow", "kind": "import", "name": "pulse", "param": {"sig": [{"t": 1}, pts_x, pts_y, "8"]}, "dst": "P", "split": False},
                   {"op": "flow", "kind": "transition", "name": "xy", "param": {"c": "1/50"}, "src": "P", "dst": "Q"}]
            bump(out, "scenario:zero_then_pulse")
            I_ = build(ops)
            o = run(I_, "odeint")
            out["evals"] += 1
            fine = [dict(op) for op in ops]; fine[0] = dict(fine[0], dt="1/8")
            I2 = build(fine)
            o2 = run(I2, "rk4")
            t_c = np.array(I_.model.times, dtype=float); t_f = np.array(I2.model.times, dtype=float)
            idx = [int(np.argmin(np.abs(t_f - t))) for t in t_c]
            ref = o2[idx]
            tv = 1.4e-4
            lim = 200 * (tv + tv * np.abs(ref))
            out["cases"].append(f"pulse:{c}:{w}:{hgt}")
            if not np.all(np.isfinite(o)) or np.any(np.abs(o - ref) > lim):
                fail(out, "adaptive solver misses a short importation pulse that follows a long period in which the right-hand side is exactly zero", "c07", payload,
                     got=o.tolist(), fine_rk4=ref.tolist(), program=ops)
    except RuntimeError as e:
        bump(out, "scenario_infra:" + str(e)[:60])
    return out


def task(W, payload):
    if payload["mode"] == "adaptive_scenarios":
        return adaptive_scenarios(W, payload)
    r = random.Random(f"C07:{payload['mode']}:{payload['seed']}:{payload['index']}")
    if payload["mode"] == "corr":
        prog = Gen(r, Opts(max_strats=2, max_flows=5, allow_requests=False, allow_computed=False, max_steps=6)).program()
        S = fresh_session(W)
        out = mk_out(prog)
        if not S.build(prog["build"]):
            bump(out, "build_rejected"); return out
        h = prog_hash(prog["build"])
        for solver in ("euler", "rk4"):
            before = len(S.log)
            py, ln = S.run(prog["params"], solver, stages=("S7",))
            out["evals"] += 1
            tag_diffs(out, S, before, "c07", payload, prog, ("S7",))
            if py.get("ok"):
                out["cases"].append(h + ":" + solver)
                bump(out, "dt:" + prog["meta"]["dt"])
        tol = r.choice([None, "7/5000", "7/5000000"])
        before = len(S.log)
        py, ln = S.run(prog["params"], "odeint", rtol=tol, atol=tol, stages=())
        out["evals"] += 1
        if py.get("ok") and ln.get("ok"):
            a = np.array(py["outputs"]); b = np.array(ln["outputs"])
            cut = getattr(S, "last_cut", len(a))
            a = a[:cut]; b = b[:cut]
            t = float(Fr(tol)) if tol else 1.4e-4
            if a.size and np.all(np.isfinite(a)) and np.all(np.isfinite(b)):
                lim = 20 * (t + t * np.maximum(np.abs(a), np.abs(b)))
                if np.any(np.abs(a - b) > lim):
                    out["diffs"].append({"stage": "S7", "what": "adaptive outputs vs model Dormand-Prince", "prescribed": False, "tol": tol,
                                         "max_excess": float(np.max(np.abs(a - b) / lim)), "task": {"module": "c07", "fn": "task", "payload": payload},
                                         "program": prog["build"], "params": prog["params"]})
                out["cases"].append(h + ":odeint")
        if payload["index"] == 0:
            out["sample"] = {"program": prog["build"], "params": prog["params"]}
        return out
    # ---- closed forms on the real code
    out = mk_out()
    t0 = r.choice([Fr(0), Fr(1, 2), Fr(-3), Fr(7, 4), Fr(10)])
    span = r.choice([Fr(2), Fr(3), Fr(4)])
    kind = r.choice(["chain", "logistic"])
    bump(out, "closed:" + kind)
    a = r.choice([Fr(1, 4), Fr(1, 2), Fr(3, 4), Fr(1)])
    b = r.choice([Fr(1, 8), Fr(3, 8), Fr(5, 4)])
    def model_ops(dt):
        if kind == "chain":
            return [{"op": "model", "t0": q(t0), "t1": q(t0 + span), "dt": q(dt), "comps": ["A", "B", "C"], "inf": ["A"]},
                    {"op": "init_pop", "dist": [["A", {"c": "100"}], ["B", {"c": "10"}]]},
                    {"op": "flow", "kind": "transition", "name": "ab", "param": {"c": q(a)}, "src": "A", "dst": "B"},
                    {"op": "flow", "kind": "transition", "name": "bc", "param": {"c": q(b)}, "src": "B", "dst": "C"}]
        return [{"op": "model", "t0": q(t0), "t1": q(t0 + span), "dt": q(dt), "comps": ["S", "I"], "inf": ["I"]},
                {"op": "init_pop", "dist": [["S", {"c": "990"}], ["I", {"c": "10"}]]},
                {"op": "flow", "kind": "inf_freq", "name": "inf", "param": {"c": q(a * 2)}, "src": "S", "dst": "I"}]
    def exact(times):
        tt = np.array(times) - float(t0)
        if kind == "chain":
            fa, fb = float(a), float(b)
            A = 100 * np.exp(-fa * tt)
            if abs(fa - fb) > 1e-12:
                B = 10 * np.exp(-fb * tt) + 100 * fa / (fb - fa) * (np.exp(-fa * tt) - np.exp(-fb * tt))
            else:
                B = (10 + 100 * fa * tt) * np.exp(-fa * tt)
            return np.stack([A, B, 110 - A - B], axis=1)
        beta = float(a * 2); N = 1000.0; I0 = 10.0
        I = N / (1 + (N / I0 - 1) * np.exp(-beta * tt))
        return np.stack([N - I, I], axis=1)
    cfg = f"{kind}:{t0}:{span}:{a}:{b}"
    try:
        errs = {}
        for solver, need in (("euler", 1.7), ("rk4", 10.0)):
            e = []
            for dt in (Fr(1, 4), Fr(1, 8), Fr(1, 16)):
                I_ = build(model_ops(dt))
                o = run(I_, solver)
                times = np.array(I_.model.times)
                out["evals"] += 1
                ex = exact(times)
                if not np.array_equal(o[0], ex[0]):
                    fail(out, f"row 0 is not exactly the initial state ({solver})", "c07", payload, row0=list(map(float, o[0])), x0=list(map(float, ex[0])), config=cfg)
                if o.shape[0] != len(times):
                    fail(out, f"number of rows differs from number of times ({solver})", "c07", payload, config=cfg)
                e.append(float(np.abs(o - ex).max()))
            errs[solver] = e
            for i in (1,):   # the finest halving (asymptotic regime)
                if e[i + 1] > 1e-9 and e[i] / e[i + 1] < need:
                    fail(out, f"{solver} does not converge with its classical order as the timestep shrinks", "c07", payload, errors=e, steps=["1/4", "1/8", "1/16"], config=cfg,
                         signature={"oracle": solver + "_order", "site": "runner/jax/solvers.py:" + solver, "pattern": "timestep != 1"})
                    break
            out["cases"].append(cfg + ":" + solver)
        # adaptive solver: tolerance and grid independence
        for tol in ("7/5000", "7/50000", "7/5000000", "7/500000000"):
            tv = float(Fr(tol))
            res = {}
            for dt in (Fr(1), Fr(1, 8)):
                I_ = build(model_ops(dt))
                o = run(I_, "odeint", rtol=tol, atol=tol)
                times = np.array(I_.model.times)
                out["evals"] += 1
                ex = exact(times)
                lim = 50 * (tv + tv * np.abs(ex))
                if not np.array_equal(o[0], ex[0]):
                    fail(out, "row 0 is not exactly the initial state (adaptive)", "c07", payload, config=cfg)
                if np.any(np.abs(o - ex) > lim):
                    fail(out, "adaptive solver is further from the exact solution than a small multiple of its tolerances", "c07", payload, tol=tol, dt=str(dt),
                         worst=float(np.max(np.abs(o - ex) / lim)), config=cfg)
                res[dt] = (times, o)
            (tc, oc), (tf, of) = res[Fr(1)], res[Fr(1, 8)]
            common = of[::8]
            lim = 50 * (tv + tv * np.abs(oc))
            if common.shape == oc.shape and np.any(np.abs(common - oc) > lim):
                fail(out, "adaptive results depend on how finely the output grid samples the same time span", "c07", payload, tol=tol, config=cfg,
                     worst=float(np.max(np.abs(common - oc) / lim)))
            out["cases"].append(cfg + ":odeint:" + tol)
    except RuntimeError as e:
        bump(out, "closed_form_infra:" + str(e)[:60])
    if payload["index"] == 0:
        out["sample"] = {"config": cfg, "euler_errors": errs.get("euler"), "rk4_errors": errs.get("rk4")}
    return out
