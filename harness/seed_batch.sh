#!/bin/bash
# usage: seed_batch.sh C01 C02 ...   : confirm each sub-agent change under /tmp/mut/out/<ID>/m{1,2} and run the property's quick check against it
cd /verif
for id in "$@"; do
  for m in m1 m2; do
    src=/tmp/mut/out/$id/$m
    [ -f $src/patch.diff ] || { echo "== $id-$m: no patch"; continue; }
    echo "== $id-$m confirm"
    python3 harness/confirm_seed.py $src $id-$m > /tmp/mut/out/$id/$m/confirm.log 2>&1
    if [ $? -eq 0 ]; then
      echo "   confirmed; running check"
      python3 harness/seedtest.py seeded/$id-$m 2>&1 | grep -v Warn | tail -3
    else
      echo "   NOT confirmed"; tail -15 /tmp/mut/out/$id/$m/confirm.log
    fi
  done
done
