"""Correspondence core: run one program on the real summer2 (interp.Interp) and on the Lean model
(lean_bridge.LeanDriver), canonicalise and compare observables stage by stage."""
import math, json, hashlib
from fractions import Fraction

RTOL = 1e-9


def close(a, b, scale=1.0, rtol=RTOL):
    a = float(a); b = float(b)
    if math.isnan(a) or math.isnan(b):
        return math.isnan(a) and math.isnan(b)
    if math.isinf(a) or math.isinf(b):
        return a == b
    return abs(a - b) <= rtol * max(1.0, abs(a), abs(b), scale)


def vec_close(a, b, rtol=RTOL):
    if len(a) != len(b):
        return False
    scale = max([1.0] + [abs(float(x)) for x in b if not math.isinf(float(x)) and not math.isnan(float(x))])
    return all(close(x, y, scale, rtol) for x, y in zip(a, b))


def mat_close(a, b, rtol=RTOL):
    if len(a) != len(b):
        return False
    return all(vec_close(x, y, rtol) for x, y in zip(a, b))


def prog_hash(prog):
    return hashlib.sha1(json.dumps(prog, sort_keys=True).encode()).hexdigest()[:12]


def canon_comp(c):
    if c is None:
        return None
    return [c[0], [list(kv) for kv in c[1]]]


def lean_const(e):
    """numeric value of a Lean-rendered expression if it is built from literals only (Python folds
    arithmetic on two literals before summer2 ever sees it)"""
    if not isinstance(e, dict):
        return None
    if "c" in e:
        return float(e["c"])
    for k, f in (("+", lambda a, b: a + b), ("-", lambda a, b: a - b), ("*", lambda a, b: a * b), ("/", lambda a, b: a / b)):
        if k in e:
            a, b = lean_const(e[k][0]), lean_const(e[k][1])
            if a is None or b is None:
                return None
            return f(a, b)
    return None


def compare_dump(py, ln):
    """structure comparison (S1): compartments in order with ordered strata, flows in order with
    kind/name/ends and the adjustment chain (kinds; values where literal), mixing categories, strains"""
    diffs = []
    if [canon_comp(c) for c in py["comps"]] != [canon_comp(c) for c in ln["comps"]]:
        diffs.append(("comps", py["comps"], ln["comps"]))
    if len(py["flows"]) != len(ln["flows"]):
        diffs.append(("n_flows", len(py["flows"]), len(ln["flows"])))
    else:
        for i, (pf, lf) in enumerate(zip(py["flows"], ln["flows"])):
            for k in ("kind", "name"):
                if pf[k] != lf[k]:
                    diffs.append((f"flow[{i}].{k}", pf[k], lf[k]))
            for k in ("src", "dst"):
                if canon_comp(pf[k]) != canon_comp(lf[k]):
                    diffs.append((f"flow[{i}].{k}", pf[k], lf[k]))
            pa = pf["adjs"]; la = lf["adjs"]
            if [a[0] for a in pa] != [a[0] for a in la]:
                diffs.append((f"flow[{i}].adj_kinds", [a[0] for a in pa], [a[0] for a in la]))
            else:
                for j, (x, y) in enumerate(zip(pa, la)):
                    lv = lean_const(y[1])
                    if (x[1] is None) != (lv is None) or (x[1] is not None and not close(x[1], lv)):
                        diffs.append((f"flow[{i}].adj[{j}].value", x[1], lv))
            lv = lean_const(lf["param"])
            if (pf["param_const"] is None) != (lv is None) or (lv is not None and not close(pf["param_const"], lv)):
                diffs.append((f"flow[{i}].param", pf["param_const"], lv))
    for k in ("mixing_cats", "strains", "n_mixing", "strats", "requests"):
        a = py[k]; b = ln[k]
        if k == "mixing_cats":
            a = [[list(kv) for kv in mc] for mc in a]; b = [[list(kv) for kv in mc] for mc in b]
        if a != b:
            diffs.append((k, a, b))
    return diffs


def tofloat(v):
    if isinstance(v, list):
        return [tofloat(x) for x in v]
    if isinstance(v, Fraction):
        return float(v)
    return v


class Session:
    """one program executed side by side"""

    def __init__(self, interp, lean_rat, lean_float=None):
        self.I = interp
        self.L = lean_rat
        self.LF = lean_float
        self.log = []          # disagreements
        self.n_ops = 0
        self.rejected_at = None
        self.both_rejected = False

    def build(self, ops, dump_each=False):
        """returns True when the whole build succeeded on both sides"""
        for i, op in enumerate(ops):
            self.n_ops += 1
            py = self.I.apply(op)
            ln = self.L.send(op)
            if self.LF is not None:
                lf = self.LF.send(op)
                if lf["ok"] != ln["ok"]:
                    self.log.append({"stage": "infra", "what": "rat/float driver disagree", "op_index": i, "op": op})
            if py.get("infra"):
                self.log.append({"stage": "infra", "what": py.get("err"), "op_index": i, "op": op})
                return False
            if py["ok"] != ln["ok"]:
                self.log.append({"stage": "S1", "what": "raise/no-raise", "op_index": i, "op": op,
                                 "impl": "accepted" if py["ok"] else "raised: " + py.get("err", ""),
                                 "model": "accepted" if ln["ok"] else "rejected: " + str(ln.get("err"))})
                self.rejected_at = i
                return False
            if not py["ok"]:
                self.rejected_at = i
                self.both_rejected = True
                self.reject_msg = (py.get("err"), ln.get("err"))
                return False
            for k in ("n_flows", "n_comps"):
                if k in py and k in ln and py[k] != ln[k]:
                    self.log.append({"stage": "S1", "what": k, "op_index": i, "op": op, "impl": py[k], "model": ln[k]})
            if dump_each and op["op"] in ("stratify", "flow"):
                self.dump(i)
        return True

    def dump(self, at=None):
        py = self.I.apply({"op": "dump"})
        ln = self.L.send({"op": "dump"})
        if not (py["ok"] and ln["ok"]):
            self.log.append({"stage": "infra", "what": "dump failed", "impl": py, "model": ln})
            return None
        d = compare_dump(py["dump"], ln["dump"])
        for what, a, b in d:
            self.log.append({"stage": "S1", "what": "dump:" + what, "op_index": at, "impl": a, "model": b})
        return py["dump"]

    def one_step(self, params, t, x, stages=("S2", "S3", "S4", "S5"), extra=None):
        op = {"op": "one_step", "params": [[k, v] for k, v in params.items()], "t": t, "x": x}
        if extra: op.update(extra)
        py = self.I.apply(op)
        ln = self.L.send(op)
        if py["ok"] != ln["ok"]:
            self.log.append({"stage": "S4", "what": "one_step raise/no-raise", "op": op,
                             "impl": py.get("err", "ok"), "model": ln.get("err", "ok")})
            return py, ln
        if not py["ok"]:
            return py, ln
        def cmp(stage, key, a, b, mat=False):
            ok = mat_close(a, b) if mat else vec_close(a, b)
            if not ok:
                self.log.append({"stage": stage, "what": key, "op": op, "impl": a, "model": tofloat(b)})
        if "S3" in stages:
            cmp("S3", "mixing_matrix", py["mixing"], ln["mixing"], mat=True)
            # one_step's *debug* multipliers are computed from the uncleaned state (unlike the ones
            # used for the rates), so they are only comparable at non-negative states
            if x is None or all(Fraction(v) >= 0 for v in x):
                cmp("S3", "infectious_multipliers", py["mults"], ln["mults"])
                cmp("S3", "per_strain", py["per_strain"], ln["per_strain"], mat=True)
        if "S2" in stages:
            # realised weights: the static ones directly; every one through flow_rate = weight * (...)
            sw = py["static_weights"]
            lw = ln["weights"]
            if len(sw) == len(lw):
                for i, (a, b) in enumerate(zip(sw, lw)):
                    if a != 0.0 and not close(a, b):
                        self.log.append({"stage": "S2", "what": f"static_weight[{i}]", "op": op, "impl": a, "model": float(b)})
        if "S4" in stages:
            cmp("S4", "flow_rates", py["flow_rates"], ln["flow_rates"])
        if "S5" in stages:
            cmp("S5", "comp_rates", py["comp_rates"], ln["comp_rates"])
        return py, ln

    def init_pop(self, params):
        op = {"op": "init_pop_eval", "params": [[k, v] for k, v in params.items()]}
        py = self.I.apply(op)
        ln = self.L.send(op)
        if py["ok"] != ln["ok"]:
            self.log.append({"stage": "S6", "what": "init_pop raise/no-raise", "op": op, "impl": py.get("err", "ok"), "model": ln.get("err", "ok")})
        elif py["ok"] and not vec_close(py["x0"], ln["x0"], 1e-12):
            self.log.append({"stage": "S6", "what": "initial_population", "op": op, "impl": py["x0"], "model": tofloat(ln["x0"])})
        return py, ln

    def run(self, params, solver, rtol=None, atol=None, tol=RTOL, stages=("S7", "S8"), jit=False, rebuild=None):
        op = {"op": "run", "params": [[k, v] for k, v in params.items()], "solver": solver, "jit": jit}
        if rebuild is not None: op["rebuild"] = bool(rebuild)
        if rtol is not None: op["rtol"] = rtol
        if atol is not None: op["atol"] = atol
        py = self.I.apply(op)
        ln = self.LF.send(op)
        if py["ok"] != ln["ok"]:
            self.log.append({"stage": "S7", "what": "run raise/no-raise", "op": op, "impl": py.get("err", "ok"), "model": ln.get("err", "ok")})
            return py, ln
        if not py["ok"]:
            return py, ln
        # rows from the first non-finite or astronomically large value on are not compared (blow-up of
        # an explicit method on a stiff random model: where NaNs appear first is not a property)
        cut = len(py["outputs"])
        for i, (ra, rb) in enumerate(zip(py["outputs"], ln["outputs"])):
            if any((not math.isfinite(v)) or abs(v) > 1e7 for v in list(ra) + list(rb)):
                cut = i
                break
        self.last_cut = cut
        if cut < len(py["outputs"]):
            py = dict(py); ln = dict(ln)
            py["outputs"] = py["outputs"][:cut]; ln["outputs"] = ln["outputs"][:cut]
            py["derived"] = [[k, v[:cut]] for k, v in py["derived"]]
            ln["derived"] = [[k, v[:cut]] for k, v in ln["derived"]]
            # cumulative / shifted outputs may still see the blow-up through earlier rows: compare only finite prefixes
        if "S7" in stages and not mat_close(py["outputs"], ln["outputs"], tol):
            self.log.append({"stage": "S7", "what": "outputs", "op": op, "impl": py["outputs"], "model": ln["outputs"]})
        if "S8" in stages:
            pd = dict((k, v) for k, v in py["derived"])
            ld = dict((k, v) for k, v in ln["derived"])
            if sorted(pd) != sorted(ld):
                self.log.append({"stage": "S8", "what": "derived output keys", "op": op, "impl": sorted(pd), "model": sorted(ld)})
            else:
                for k in pd:
                    if not vec_close(pd[k], ld[k], max(tol, 1e-9)):
                        self.log.append({"stage": "S8", "what": f"derived[{k}]", "op": op, "impl": pd[k], "model": ld[k]})
        return py, ln
